//! A case, and running the REAL implementation on it.

use crate::types::*;
use crate::{with_all, with_deriv, with_fixed, with_integ, with_mulassign, with_negadd};
use approx::{AbsDiffEq, RelativeEq};
use piecewise_polynomial::*;
use std::collections::BTreeMap;
use std::panic::{catch_unwind, AssertUnwindSafe};

#[derive(Clone, Debug, PartialEq)]
pub enum Val {
    F(f64),
    L(Vec<f64>),
    Pw(Pw),
    Knots(Vec<(f64, f64)>),
    S(String),
}

impl Val {
    pub fn wire(&self) -> String {
        match self {
            Val::F(x) => hx(*x),
            Val::L(xs) => hxs(xs),
            Val::Pw(p) => show_pw(p),
            Val::Knots(k) => k.iter().map(|(x, y)| format!("{},{}", hx(*x), hx(*y))).collect::<Vec<_>>().join(";"),
            Val::S(s) => s.clone(),
        }
    }
}

#[derive(Clone, Debug)]
pub struct Case {
    pub cmd: String,
    pub tag: String,
    pub f: BTreeMap<String, Val>,
    /// generator classes hit (for the evidence histogram)
    pub classes: Vec<String>,
    /// non-trivial by the campaign's rule
    pub nontrivial: bool,
}

impl Case {
    pub fn new(cmd: &str, tag: &str) -> Self {
        Case { cmd: cmd.into(), tag: tag.into(), f: BTreeMap::new(), classes: vec![], nontrivial: true }
    }
    pub fn set(mut self, k: &str, v: Val) -> Self {
        self.f.insert(k.into(), v);
        self
    }
    pub fn cls(mut self, c: &str) -> Self {
        self.classes.push(c.into());
        self
    }
    pub fn fl(&self, k: &str) -> f64 {
        match &self.f[k] {
            Val::F(x) => *x,
            _ => panic!("field {k}"),
        }
    }
    pub fn li(&self, k: &str) -> &Vec<f64> {
        match &self.f[k] {
            Val::L(x) => x,
            _ => panic!("field {k}"),
        }
    }
    pub fn pw(&self, k: &str) -> &Pw {
        match &self.f[k] {
            Val::Pw(x) => x,
            _ => panic!("field {k}"),
        }
    }
    pub fn knots(&self, k: &str) -> Vec<Knot> {
        match &self.f[k] {
            Val::Knots(x) => x.iter().map(|(x, y)| Knot { x: *x, y: *y }).collect(),
            _ => panic!("field {k}"),
        }
    }
    pub fn st(&self, k: &str) -> &str {
        match &self.f[k] {
            Val::S(x) => x,
            _ => panic!("field {k}"),
        }
    }
    /// request line without the implementation's outputs
    pub fn request_prefix(&self) -> String {
        let mut s = format!("{} T={}", self.cmd, self.tag);
        for (k, v) in &self.f {
            s.push(' ');
            s.push_str(k);
            s.push('=');
            s.push_str(&v.wire());
        }
        s
    }
}

fn guard<F: FnOnce() -> String>(f: F) -> String {
    match catch_unwind(AssertUnwindSafe(f)) {
        Ok(s) => s,
        Err(_) => "PANIC".into(),
    }
}

fn b(x: bool) -> String {
    if x { "1".into() } else { "0".into() }
}

/// does the crate implement operator `op` for the form named `tag`?  (auto-ref probe, cached)
pub fn op_exists(tag: &str, op: &str) -> bool {
    use std::collections::HashMap;
    use std::sync::{Mutex, OnceLock};
    static CACHE: OnceLock<Mutex<HashMap<(String, String), bool>>> = OnceLock::new();
    let m = CACHE.get_or_init(|| Mutex::new(HashMap::new()));
    if let Some(v) = m.lock().unwrap().get(&(tag.to_string(), op.to_string())) {
        return *v;
    }
    let n = match crate::types::tag_len(tag) {
        usize::MAX => 3,
        n => n,
    };
    let c = Case::new("opsraw", tag)
        .set("op", Val::S(op.into()))
        .set("p", Val::L(vec![1.0; n]))
        .set("q", Val::L(vec![1.0; n]))
        .set("s", Val::F(1.0));
    let r = run_impl(&c).iter().any(|(k, v)| k == "impl" && v != "NOIMPL");
    m.lock().unwrap().insert((tag.to_string(), op.to_string()), r);
    r
}

/// does the crate implement operator `op` for `Segment<T>` (level "seg") / `Piecewise<T>` (level "pw"), T named by `tag`?
pub fn pw_op_exists(tag: &str, level: &str, op: &str) -> bool {
    use std::collections::HashMap;
    use std::sync::{Mutex, OnceLock};
    static CACHE: OnceLock<Mutex<HashMap<(String, String, String), bool>>> = OnceLock::new();
    let m = CACHE.get_or_init(|| Mutex::new(HashMap::new()));
    let key = (tag.to_string(), level.to_string(), op.to_string());
    if let Some(v) = m.lock().unwrap().get(&key) {
        return *v;
    }
    let n = match crate::types::tag_len(tag) {
        usize::MAX => 3,
        n => n,
    };
    let c = Case::new("pwopsraw", tag)
        .set("op", Val::S(op.into()))
        .set("level", Val::S(level.into()))
        .set("pw", Val::Pw(vec![(1.0, vec![1.0; n])]))
        .set("s", Val::F(1.0));
    let r = run_impl(&c).iter().any(|(k, v)| k == "impl" && v != "NOIMPL");
    m.lock().unwrap().insert(key, r);
    r
}

/// does `&Piecewise<T> + &Piecewise<T>` exist for the piece type named by `tag`?
pub fn merge_exists(tag: &str) -> bool {
    use std::collections::HashMap;
    use std::sync::{Mutex, OnceLock};
    static CACHE: OnceLock<Mutex<HashMap<String, bool>>> = OnceLock::new();
    let m = CACHE.get_or_init(|| Mutex::new(HashMap::new()));
    if let Some(v) = m.lock().unwrap().get(tag) {
        return *v;
    }
    let n = match crate::types::tag_len(tag) {
        usize::MAX => 3,
        n => n,
    };
    let c = Case::new("mergeraw", tag)
        .set("op", Val::S("add".into()))
        .set("f", Val::Pw(vec![(1.0, vec![1.0; n])]))
        .set("g", Val::Pw(vec![(2.0, vec![1.0; n])]));
    let r = run_impl(&c).iter().any(|(k, v)| k == "impl" && v != "NOIMPL");
    m.lock().unwrap().insert(tag.to_string(), r);
    r
}

/// Runs the real code; returns the output fields (`impl`, and the reference fields monitors use).
pub fn run_impl(c: &Case) -> Vec<(String, String)> {
    if let Some(v) = crate::extra::run_extra(c) {
        return v;
    }
    let tag = c.tag.as_str();
    let mut out = vec![];
    let imp: Option<String> = match c.cmd.as_str() {
        "sf" => {
            let (a, bb, cc) = (c.fl("a"), c.fl("b"), c.fl("c"));
            let bits = |x: bool| f64::from_bits(x as u64);
            let r = match c.st("op") {
                "add" => a + bb,
                "sub" => a - bb,
                "mul" => a * bb,
                "div" => a / bb,
                "fma" => a.mul_add(bb, cc),
                "max" => a.max(bb),
                "neg" => -a,
                "abs" => a.abs(),
                "lt" => bits(a < bb),
                "le" => bits(a <= bb),
                "eq" => bits(a == bb),
                "isnan" => bits(a.is_nan()),
                "isinf" => bits(a.is_infinite()),
                _ => f64::NAN,
            };
            Some(hx(r))
        }
        "eval" => with_all!(tag, T => guard(|| hx(T::from_nums(c.li("p")).evaluate(c.fl("x"))))),
        "pweval" => with_all!(tag, T => guard(|| hx(pw_to::<T>(c.pw("pw")).evaluate(c.fl("x"))))),
        "evaluator" => with_all!(tag, T => {
            let p = pw_to::<T>(c.pw("pw"));
            let xs = c.li("xs").clone();
            if !p.segments.is_empty() {
                out.push(("direct".to_string(), guard(|| hxs(&xs.iter().map(|x| p.evaluate(*x)).collect::<Vec<_>>()))));
            }
            guard(|| {
                let mut ev = PiecewiseEvaluator::new(&p.segments);
                hxs(&xs.iter().map(|x| ev.evaluate(*x)).collect::<Vec<_>>())
            })
        }),
        "evalv" => with_all!(tag, T => {
            let p = pw_to::<T>(c.pw("pw"));
            let xs = c.li("xs").clone();
            if !p.segments.is_empty() {
                out.push(("direct".to_string(), guard(|| hxs(&xs.iter().map(|x| p.evaluate(*x)).collect::<Vec<_>>()))));
                if tag == "p0" && xs.iter().all(|x| !x.is_nan()) {
                    let mut m = f64::NEG_INFINITY;
                    let dm: Vec<f64> = xs.iter().map(|x| { if *x > m { m = *x; } p.evaluate(m) }).collect();
                    out.push(("directmax".to_string(), hxs(&dm)));
                }
            }
            // laziness (C12): pull the outputs one at a time through a counting input iterator; after the
            // k-th output exactly k inputs may have been consumed
            let lazy = guard(|| {
                use std::cell::Cell;
                let pulled = Cell::new(0usize);
                let input = xs.iter().cloned().inspect(|_| pulled.set(pulled.get() + 1));
                let mut it = p.evaluate_v(input);
                let mut ok = pulled.get() == 0;
                let mut k = 0usize;
                while it.next().is_some() {
                    k += 1;
                    ok &= pulled.get() == k;
                }
                if ok { "1".to_string() } else { "0".to_string() }
            });
            out.push(("lazy".to_string(), lazy));
            // the returned iterator consumed in other ways than `next()`: fold / for_each / last / nth / count must see the
            // same values
            let iterok = guard(|| {
                let by_next: Vec<u64> = p.evaluate_v(xs.iter().cloned()).map(|y| y.to_bits()).collect();
                let mut by_fold: Vec<u64> = vec![];
                p.evaluate_v(xs.iter().cloned()).for_each(|y| by_fold.push(y.to_bits()));
                let folded: Vec<u64> = p.evaluate_v(xs.iter().cloned()).fold(vec![], |mut v, y| { v.push(y.to_bits()); v });
                let last = p.evaluate_v(xs.iter().cloned()).last().map(|y| y.to_bits());
                let count = p.evaluate_v(xs.iter().cloned()).count();
                let mut it = p.evaluate_v(xs.iter().cloned());
                let mut by_nth: Vec<u64> = vec![];
                // alternate nth(0) and nth(1): skipped outputs must still advance the state like evaluated ones
                let mut k = 0usize;
                let mut expect_idx: Vec<usize> = vec![];
                let mut idx = 0usize;
                loop {
                    let step = k % 2;
                    match it.nth(step) {
                        Some(y) => { by_nth.push(y.to_bits()); expect_idx.push(idx + step); idx += step + 1; }
                        None => break,
                    }
                    k += 1;
                }
                let same = |a: &Vec<u64>, b: &Vec<u64>| a.len() == b.len() && a.iter().zip(b).all(|(x, y)| x == y || (f64::from_bits(*x).is_nan() && f64::from_bits(*y).is_nan()));
                let nth_ok = expect_idx.iter().zip(&by_nth).all(|(i, y)| { let e = by_next[*i]; e == *y || (f64::from_bits(e).is_nan() && f64::from_bits(*y).is_nan()) });
                let last_ok = match (last, by_next.last()) { (None, None) => true, (Some(a), Some(b)) => a == *b || (f64::from_bits(a).is_nan() && f64::from_bits(*b).is_nan()), _ => false };
                b(same(&by_next, &by_fold) && same(&by_next, &folded) && last_ok && count == by_next.len() && nth_ok)
            });
            out.push(("iterok".to_string(), iterok));
            guard(|| hxs(&p.evaluate_v(xs.iter().cloned()).collect::<Vec<_>>()))
        }),
        "deriv" => with_deriv!(tag, T => guard(|| hxs(&T::from_nums(c.li("p")).derivative().to_nums()))),
        "indef" => with_integ!(tag, T => guard(|| hxs(&T::from_nums(c.li("p")).indefinite().to_nums()))),
        "integral" => with_integ!(tag, T => guard(|| {
            let k = c.li("k");
            hxs(&T::from_nums(c.li("p")).integral(Knot { x: k[0], y: k[1] }).to_nums())
        })),
        "translate" => with_all!(tag, T => guard(|| { let mut p = T::from_nums(c.li("p")); p.translate(c.fl("v")); hxs(&p.to_nums()) })),
        "mul" => with_fixed!(tag, T => guard(|| hxs(&(T::from_nums(c.li("p")) * c.fl("s")).to_nums()))),
        "mulassign" => with_mulassign!(tag, T => guard(|| { let mut p = T::from_nums(c.li("p")); p *= c.fl("s"); hxs(&p.to_nums()) })),
        "neg" => with_negadd!(tag, T => guard(|| hxs(&(-T::from_nums(c.li("p"))).to_nums()))),
        "add" => with_negadd!(tag, T => guard(|| hxs(&(T::from_nums(c.li("p")) + T::from_nums(c.li("q"))).to_nums()))),
        "opsraw" => with_all!(tag, T => {
            #[allow(unused_imports)]
            use crate::probe::*;
            let pr = Probe::<T>::new();
            let p = || T::from_nums(c.li("p"));
            let q = || T::from_nums(c.li("q"));
            let show = |t: &T| hxs(&t.to_nums());
            let op = c.st("op").to_string();
            let r = catch_unwind(AssertUnwindSafe(|| match op.as_str() {
                "mul" => (&pr).op_mul(p(), c.fl("s"), &show),
                "mulassign" => (&pr).op_mulassign(p(), c.fl("s"), &show),
                "neg" => (&pr).op_neg(p(), &show),
                "add" => (&pr).op_add(p(), q(), &show),
                "sub" => (&pr).op_sub(p(), q(), &show),
                "addassign" => (&pr).op_addassign(p(), q(), &show),
                "subassign" => (&pr).op_subassign(p(), q(), &show),
                "refadd" => (&pr).op_refadd(p(), q(), &show),
                "refsub" => (&pr).op_refsub(p(), q(), &show),
                "refmul" => (&pr).op_refmul(p(), c.fl("s"), &show),
                "refneg" => (&pr).op_refneg(p(), &show),
                _ => None,
            }));
            match r {
                Ok(Some(v)) => v,
                Ok(None) => "NOIMPL".to_string(),
                Err(_) => "PANIC".to_string(),
            }
        }),
        // `&Piecewise<T> + &Piecewise<T>` / `-` for EVERY piece type for which it exists (today only IntOfLogPoly4):
        // judged on the implementation's own outputs - well-formed result, and at every breakpoint (and next to it)
        // result(x) = f(x) +- g(x) up to coefficient rounding
        "mergeraw" => with_all!(tag, T => {
            #[allow(unused_imports)]
            use crate::probe::*;
            let pr = Probe::<Piecewise<T>>::new();
            let sub = c.st("op") == "sub";
            let f = pw_to::<T>(c.pw("f"));
            let g = pw_to::<T>(c.pw("g"));
            let (f2, g2) = (pw_to::<T>(c.pw("f")), pw_to::<T>(c.pw("g")));
            let show = |t: &Piecewise<T>| {
                let ends: Vec<f64> = t.segments.iter().map(|s| s.end).collect();
                let mut ok = !ends.is_empty() && ends.windows(2).all(|w| w[0] <= w[1]) && ends.len() + 1 <= f2.segments.len() + g2.segments.len()
                    && ends.iter().all(|e| f2.segments.iter().any(|s| s.end.to_bits() == e.to_bits()) || g2.segments.iter().any(|s| s.end.to_bits() == e.to_bits()));
                if ok {
                    let mut pts = vec![f64::NEG_INFINITY, f64::INFINITY];
                    for s in f2.segments.iter().chain(g2.segments.iter()) {
                        pts.extend_from_slice(&[crate::gen::next_down(s.end), s.end, crate::gen::next_up(s.end)]);
                    }
                    for x in pts.into_iter().take(600) {
                        if x.is_nan() {
                            continue;
                        }
                        // the pieces f and g select at x (C02), combined by the PIECE-level by-reference operator (which exists
                        // whenever the piecewise one does), evaluated at x: the merged function must return exactly that
                        let sel = |p: &Piecewise<T>| -> T {
                            let s = p.segments.iter().find(|s| s.end > x).unwrap_or_else(|| p.segments.last().unwrap());
                            T::from_nums(&s.poly.to_nums())
                        };
                        let pp = Probe::<T>::new();
                        let ev = |t: &T| hx(t.evaluate(x));
                        let want = if sub { (&pp).op_refsub(sel(&f2), sel(&g2), &ev) } else { (&pp).op_refadd(sel(&f2), sel(&g2), &ev) };
                        let got = t.evaluate(x);
                        match want {
                            Some(w) => {
                                let wv = f64::from_bits(u64::from_str_radix(&w, 16).unwrap_or(0));
                                if !(wv.to_bits() == got.to_bits() || (wv.is_nan() && got.is_nan())) {
                                    ok = false;
                                    break;
                                }
                            }
                            None => {}
                        }
                        // ... and, independently of the piece-level operator (which may be the faulty one), GROSSLY: the value of
                        // the result is f(x) +- g(x); tolerance 1% of the magnitudes of the two evaluations (the same pieces
                        // with every number replaced by its absolute value), so only an error of the size of the data counts
                        let (a, b) = (f2.evaluate(x), g2.evaluate(x));
                        let wantv = if sub { a - b } else { a + b };
                        if a.is_finite() && b.is_finite() && wantv.is_finite() && got.is_finite() && x.is_finite() && x.abs() < 1e100 {
                            let mag = |p: &Piecewise<T>| -> f64 {
                                let q = Piecewise { segments: p.segments.iter().map(|s| Segment { end: s.end, poly: T::from_nums(&s.poly.to_nums().iter().map(|v| v.abs()).collect::<Vec<_>>()) }).collect() };
                                q.evaluate(x).abs()
                            };
                            let scale = a.abs() + b.abs() + mag(&f2) + mag(&g2);
                            if scale.is_finite() && (got - wantv).abs() > 1e-2 * scale + 1e-280 {
                                ok = false;
                                break;
                            }
                        }
                    }
                }
                if ok { "1".to_string() } else { "0".to_string() }
            };
            let r = catch_unwind(AssertUnwindSafe(|| if sub { (&pr).op_refsub(f, g, &show) } else { (&pr).op_refadd(f, g, &show) }));
            match r {
                Ok(Some(v)) => v,
                Ok(None) => "NOIMPL".to_string(),
                Err(_) => "PANIC".to_string(),
            }
        }),
        // the same probe on the containers: level=seg -> Segment<T> (the first segment), level=pw -> Piecewise<T>
        "pwopsraw" => with_all!(tag, T => {
            #[allow(unused_imports)]
            use crate::probe::*;
            let op = c.st("op").to_string();
            let seg_level = c.st("level") == "seg";
            let pw = || pw_to::<T>(c.pw("pw"));
            let r = catch_unwind(AssertUnwindSafe(|| {
                if seg_level {
                    let pr = Probe::<Segment<T>>::new();
                    let show = |t: &Segment<T>| show_pw(&segs_from(std::slice::from_ref(t)));
                    let p = || pw().segments.remove(0);
                    match op.as_str() {
                        "mul" => (&pr).op_mul(p(), c.fl("s"), &show),
                        "mulassign" => (&pr).op_mulassign(p(), c.fl("s"), &show),
                        "neg" => (&pr).op_neg(p(), &show),
                        _ => None,
                    }
                } else {
                    let pr = Probe::<Piecewise<T>>::new();
                    let show = |t: &Piecewise<T>| show_pw(&pw_from(t));
                    match op.as_str() {
                        "mul" => (&pr).op_mul(pw(), c.fl("s"), &show),
                        "mulassign" => (&pr).op_mulassign(pw(), c.fl("s"), &show),
                        "neg" => (&pr).op_neg(pw(), &show),
                        _ => None,
                    }
                }
            }));
            match r {
                Ok(Some(v)) => v,
                Ok(None) => "NOIMPL".to_string(),
                Err(_) => "PANIC".to_string(),
            }
        }),
        "absdiff" => with_all!(tag, T => {
            // the default tolerance every type advertises (C17 quantifies over "0, default, large")
            out.push(("deps".to_string(), guard(|| hx(<T as AbsDiffEq>::default_epsilon()))));
            // C17: both relations are "implied by ==" - the implementation's own PartialEq
            out.push(("eq".to_string(), guard(|| b(T::from_nums(c.li("p")) == T::from_nums(c.li("q"))))));
            // the provided `abs_diff_ne` is the negation; comparing a value with ITSELF (same reference) gives what comparing
            // it with an equal clone gives
            out.push(("neok".to_string(), guard(|| { let (p, q) = (T::from_nums(c.li("p")), T::from_nums(c.li("q"))); b(p.abs_diff_ne(&q, c.fl("eps")) == !p.abs_diff_eq(&q, c.fl("eps"))) })));
            out.push(("aliasok".to_string(), guard(|| { let p = T::from_nums(c.li("p")); let p2 = T::from_nums(c.li("p")); b(p.abs_diff_eq(&p, c.fl("eps")) == p.abs_diff_eq(&p2, c.fl("eps"))) })));
            guard(|| b(T::from_nums(c.li("p")).abs_diff_eq(&T::from_nums(c.li("q")), c.fl("eps"))))
        }),
        "releq" => with_all!(tag, T => {
            out.push(("deps".to_string(), guard(|| hx(<T as AbsDiffEq>::default_epsilon()))));
            out.push(("dmr".to_string(), guard(|| hx(<T as RelativeEq>::default_max_relative()))));
            out.push(("eq".to_string(), guard(|| b(T::from_nums(c.li("p")) == T::from_nums(c.li("q"))))));
            out.push(("neok".to_string(), guard(|| { let (p, q) = (T::from_nums(c.li("p")), T::from_nums(c.li("q"))); b(p.relative_ne(&q, c.fl("eps"), c.fl("mr")) == !p.relative_eq(&q, c.fl("eps"), c.fl("mr"))) })));
            out.push(("aliasok".to_string(), guard(|| { let p = T::from_nums(c.li("p")); let p2 = T::from_nums(c.li("p")); b(p.relative_eq(&p, c.fl("eps"), c.fl("mr")) == p.relative_eq(&p2, c.fl("eps"), c.fl("mr"))) })));
            guard(|| b(T::from_nums(c.li("p")).relative_eq(&T::from_nums(c.li("q")), c.fl("eps"), c.fl("mr"))))
        }),
        "pwderiv" => with_deriv!(tag, T => guard(|| show_pw(&pw_from(&pw_to::<T>(c.pw("pw")).derivative())))),
        "segderiv" => with_deriv!(tag, T => guard(|| show_pw(&segs_from(&[pw_to::<T>(c.pw("pw")).segments[0].derivative()])))),
        "pwintegral" => with_integ!(tag, T => guard(|| {
            let k = c.li("k");
            show_pw(&pw_from(&pw_to::<T>(c.pw("pw")).integral(Knot { x: k[0], y: k[1] })))
        })),
        "pwindef" => with_integ!(tag, T => guard(|| show_pw(&pw_from(&pw_to::<T>(c.pw("pw")).indefinite())))),
        "integraliter" => with_integ!(tag, T => {
            let k = c.li("k").clone();
            let p = pw_to::<T>(c.pw("pw"));
            // by value and by reference must agree (C11)
            let by_ref = guard(|| show_pw(&segs_from(&Segment::integral_iter_ref(&p.segments, Knot { x: k[0], y: k[1] }).collect::<Vec<_>>())));
            out.push(("byref".to_string(), by_ref));
            guard(|| show_pw(&segs_from(&Segment::integral_iter(p.segments.clone(), Knot { x: k[0], y: k[1] }).collect::<Vec<_>>())))
        }),
        "segintegral" => with_integ!(tag, T => guard(|| {
            let k = c.li("k");
            show_pw(&segs_from(&[pw_to::<T>(c.pw("pw")).segments[0].integral(Knot { x: k[0], y: k[1] })]))
        })),
        "segindef" => with_integ!(tag, T => guard(|| show_pw(&segs_from(&[pw_to::<T>(c.pw("pw")).segments[0].indefinite()])))),
        "pwmul" => with_fixed!(tag, T => guard(|| show_pw(&pw_from(&(pw_to::<T>(c.pw("pw")) * c.fl("s")))))),
        "segmul" => with_fixed!(tag, T => guard(|| show_pw(&segs_from(&[pw_to::<T>(c.pw("pw")).segments[0] * c.fl("s")])))),
        "pwmulassign" => with_mulassign!(tag, T => guard(|| { let mut p = pw_to::<T>(c.pw("pw")); p *= c.fl("s"); show_pw(&pw_from(&p)) })),
        "segmulassign" => with_mulassign!(tag, T => guard(|| {
            let mut p = pw_to::<T>(c.pw("pw"));
            // both impls: `Segment<T>` and `&mut Segment<T>`
            let mut s0 = p.segments[0];
            s0 *= c.fl("s");
            let mut r = &mut p.segments[0];
            r *= c.fl("s");
            let via_ref = show_pw(&segs_from(&[p.segments[0]]));
            let via_val = show_pw(&segs_from(&[s0]));
            if via_ref != via_val { "PANIC".to_string() } else { via_val }
        })),
        "pwneg" => with_negadd!(tag, T => guard(|| show_pw(&pw_from(&(-pw_to::<T>(c.pw("pw"))))))),
        "pwtranslate" => with_all!(tag, T => guard(|| { let mut p = pw_to::<T>(c.pw("pw")); p.translate(c.fl("v")); show_pw(&pw_from(&p)) })),
        "segtranslate" => with_all!(tag, T => guard(|| { let mut p = pw_to::<T>(c.pw("pw")); p.segments[0].translate(c.fl("v")); show_pw(&segs_from(&[p.segments.remove(0)])) })),
        "pwabsdiff" => with_fixed!(tag, T => {
            out.push(("deps".to_string(), guard(|| {
                let a = <Piecewise<T> as AbsDiffEq>::default_epsilon();
                let s = <Segment<T> as AbsDiffEq>::default_epsilon();
                if a.to_bits() == s.to_bits() { hx(a) } else { hx(f64::NAN) }
            })));
            out.push(("eq".to_string(), guard(|| b(pw_to::<T>(c.pw("pw")) == pw_to::<T>(c.pw("pw2"))))));
            out.push(("neok".to_string(), guard(|| { let (p, q) = (pw_to::<T>(c.pw("pw")), pw_to::<T>(c.pw("pw2"))); b(p.abs_diff_ne(&q, c.fl("eps")) == !p.abs_diff_eq(&q, c.fl("eps"))) })));
            out.push(("aliasok".to_string(), guard(|| { let p = pw_to::<T>(c.pw("pw")); let p2 = pw_to::<T>(c.pw("pw")); b(p.abs_diff_eq(&p, c.fl("eps")) == p.abs_diff_eq(&p2, c.fl("eps"))) })));
            guard(|| b(pw_to::<T>(c.pw("pw")).abs_diff_eq(&pw_to::<T>(c.pw("pw2")), c.fl("eps"))))
        }),
        "pwreleq" => with_fixed!(tag, T => {
            out.push(("dmr".to_string(), guard(|| {
                let a = <Piecewise<T> as RelativeEq>::default_max_relative();
                let s = <Segment<T> as RelativeEq>::default_max_relative();
                if a.to_bits() == s.to_bits() { hx(a) } else { hx(f64::NAN) }
            })));
            out.push(("eq".to_string(), guard(|| b(pw_to::<T>(c.pw("pw")) == pw_to::<T>(c.pw("pw2"))))));
            out.push(("neok".to_string(), guard(|| { let (p, q) = (pw_to::<T>(c.pw("pw")), pw_to::<T>(c.pw("pw2"))); b(p.relative_ne(&q, c.fl("eps"), c.fl("mr")) == !p.relative_eq(&q, c.fl("eps"), c.fl("mr"))) })));
            out.push(("aliasok".to_string(), guard(|| { let p = pw_to::<T>(c.pw("pw")); let p2 = pw_to::<T>(c.pw("pw")); b(p.relative_eq(&p, c.fl("eps"), c.fl("mr")) == p.relative_eq(&p2, c.fl("eps"), c.fl("mr"))) })));
            guard(|| b(pw_to::<T>(c.pw("pw")).relative_eq(&pw_to::<T>(c.pw("pw2")), c.fl("eps"), c.fl("mr"))))
        }),
        "merge" => {
            let f = pw_to::<IntOfLogPoly4>(c.pw("f"));
            let g = pw_to::<IntOfLogPoly4>(c.pw("g"));
            let sub = c.st("op") == "sub";
            Some(guard(|| show_pw(&pw_from(&if sub { &f - &g } else { &f + &g }))))
        }
        "linear" => Some(guard(|| show_pw(&pw_from(&linear(&c.knots("knots")))))),
        "spline" => Some(guard(|| show_pw(&pw_from(&constrained_spline(&c.knots("knots")))))),
        _ => None,
    };
    out.push(("impl".to_string(), imp.unwrap_or_else(|| "UNSUPPORTED".into())));
    out
}
