//! Which operator impls does the crate have RIGHT NOW?  (C14 quantifies over "every operator implementation that
//! exists for every form".)  Auto-ref specialisation: for a concrete `T`, `(&Probe::<T>::new()).op(..)` resolves to
//! the `…Yes` impl when `T` implements the operator trait and to the `…No` impl (on `&Probe<T>`) otherwise, so this
//! file compiles against any set of impls and a NEWLY ADDED impl is exercised without editing the harness.
//! The results are checked number by number by the driver's `opsraw` command (monitor `Mon.ops`), which needs no
//! model instance for the type.

use std::marker::PhantomData;
use std::ops::{Add, AddAssign, Mul, MulAssign, Neg, Sub, SubAssign};

pub struct Probe<T>(PhantomData<T>);
impl<T> Probe<T> {
    pub fn new() -> Self {
        Probe(PhantomData)
    }
}

macro_rules! probe_pair {
    ($yes:ident, $no:ident, $m:ident, ($($arg:ident : $aty:ty),*), [$($bound:tt)*], |$p:ident| $body:expr) => {
        pub trait $yes<T> {
            fn $m(&self, p: T $(, $arg: $aty)*, show: &dyn Fn(&T) -> String) -> Option<String>;
        }
        impl<T: $($bound)*> $yes<T> for Probe<T> {
            #[allow(unused_mut)]
            fn $m(&self, mut $p: T $(, $arg: $aty)*, show: &dyn Fn(&T) -> String) -> Option<String> {
                let r: T = $body;
                Some(show(&r))
            }
        }
        pub trait $no<T> {
            fn $m(&self, p: T $(, $arg: $aty)*, show: &dyn Fn(&T) -> String) -> Option<String>;
        }
        impl<T> $no<T> for &Probe<T> {
            fn $m(&self, _p: T $(, $arg: $aty)*, _show: &dyn Fn(&T) -> String) -> Option<String> {
                $(let _ = $arg;)*
                None
            }
        }
    };
}

probe_pair!(MulYes, MulNo, op_mul, (s: f64), [Mul<f64, Output = T>], |p| p * s);
probe_pair!(MulAssignYes, MulAssignNo, op_mulassign, (s: f64), [MulAssign<f64>], |p| {
    p *= s;
    p
});
probe_pair!(NegYes, NegNo, op_neg, (), [Neg<Output = T>], |p| -p);
probe_pair!(AddYes, AddNo, op_add, (q: T), [Add<T, Output = T>], |p| p + q);
probe_pair!(SubYes, SubNo, op_sub, (q: T), [Sub<T, Output = T>], |p| p - q);
probe_pair!(AddAssignYes, AddAssignNo, op_addassign, (q: T), [AddAssign<T>], |p| {
    p += q;
    p
});
probe_pair!(SubAssignYes, SubAssignNo, op_subassign, (q: T), [SubAssign<T>], |p| {
    p -= q;
    p
});

// by-REFERENCE operands (`&p + &q`, `&p - &q`, `&p * s`, `-&p`): separate impls in Rust, so separately probed
macro_rules! ref_probe_pair {
    ($yes:ident, $no:ident, $m:ident, ($($arg:ident : $aty:ty),*), [$($bound:tt)*], |$p:ident| $body:expr) => {
        pub trait $yes<T> {
            fn $m(&self, p: T $(, $arg: $aty)*, show: &dyn Fn(&T) -> String) -> Option<String>;
        }
        impl<T> $yes<T> for Probe<T>
        where
            $($bound)*
        {
            fn $m(&self, $p: T $(, $arg: $aty)*, show: &dyn Fn(&T) -> String) -> Option<String> {
                let r: T = $body;
                Some(show(&r))
            }
        }
        pub trait $no<T> {
            fn $m(&self, p: T $(, $arg: $aty)*, show: &dyn Fn(&T) -> String) -> Option<String>;
        }
        impl<T> $no<T> for &Probe<T> {
            fn $m(&self, _p: T $(, $arg: $aty)*, _show: &dyn Fn(&T) -> String) -> Option<String> {
                $(let _ = $arg;)*
                None
            }
        }
    };
}
ref_probe_pair!(RefAddYes, RefAddNo, op_refadd, (q: T), [for<'a> &'a T: Add<&'a T, Output = T>], |p| &p + &q);
ref_probe_pair!(RefSubYes, RefSubNo, op_refsub, (q: T), [for<'a> &'a T: Sub<&'a T, Output = T>], |p| &p - &q);
ref_probe_pair!(RefMulYes, RefMulNo, op_refmul, (s: f64), [for<'a> &'a T: Mul<f64, Output = T>], |p| &p * s);
ref_probe_pair!(RefNegYes, RefNegNo, op_refneg, (), [for<'a> &'a T: Neg<Output = T>], |p| -&p);

pub const PROBE_OPS: &[&str] = &["mul", "mulassign", "neg", "add", "sub", "addassign", "subassign", "refadd", "refsub", "refmul", "refneg"];
/// operators probed on the containers `Segment<T>` and `Piecewise<T>` (C15: "every piece type for which the operator exists")
pub const PROBE_PW_OPS: &[&str] = &["mul", "mulassign", "neg"];
