/-! Soft binary64, core Lean only. Scratch prototype. -/

structure F64 where
  bits : UInt64
deriving DecidableEq, Repr

namespace F64

/-- Decoded view. `fin neg m e` denotes (-1)^neg * m * 2^e. -/
inductive View where
  | nan
  | inf (neg : Bool)
  | fin (neg : Bool) (m : Nat) (e : Int)
deriving Repr, DecidableEq

def signBit (x : F64) : Bool := (x.bits >>> 63) != 0
def expField (x : F64) : Nat := ((x.bits >>> 52) &&& 0x7FF).toNat
def fracField (x : F64) : Nat := (x.bits &&& 0xFFFFFFFFFFFFF).toNat

def view (x : F64) : View :=
  let s := x.signBit
  let ex := x.expField
  let fr := x.fracField
  if ex == 2047 then (if fr == 0 then .inf s else .nan)
  else if ex == 0 then .fin s fr (-1074)
  else .fin s (fr + 2^52) ((ex : Int) - 1075)

def ofBitsNat (n : Nat) : F64 := ⟨UInt64.ofNat n⟩
def canonNaN : F64 := ⟨0x7FF8000000000000⟩
def mkInf (neg : Bool) : F64 := ⟨if neg then 0xFFF0000000000000 else 0x7FF0000000000000⟩
def mkZero (neg : Bool) : F64 := ⟨if neg then 0x8000000000000000 else 0⟩
def isNaN (x : F64) : Bool := x.view == .nan

/-- floor(log2 (num/den)) for num, den > 0 -/
def floorLog2Ratio (num den : Nat) : Int :=
  let t : Int := (Nat.log2 num : Int) - (Nat.log2 den : Int)
  -- num/den ∈ (2^(t-1), 2^(t+1))
  let ge : Bool := if t ≥ 0 then num ≥ den <<< t.toNat else (num <<< (-t).toNat) ≥ den
  if ge then t else t - 1

/-- Round the positive rational num/den (both > 0) to nearest-even binary64, with sign. -/
def roundRatio (neg : Bool) (num den : Nat) : F64 :=
  if num == 0 then mkZero neg else
  let fl := floorLog2Ratio num den
  let e : Int := max (fl - 52) (-1074)
  let (n, d) : Nat × Nat := if e ≥ 0 then (num, den <<< e.toNat) else (num <<< (-e).toNat, den)
  let q := n / d
  let r := n % d
  let q' := if 2 * r > d then q + 1 else if 2 * r == d then q + (q % 2) else q
  -- encode: q' ∈ [0, 2^53]; biased exponent of the 2^52 bit is e + 1075
  if q' < 2^52 then
    -- subnormal (then e = -1074)
    let b := q'
    ofBitsNat (b + (if neg then 2^63 else 0))
  else
    let biased : Int := e + 1075
    -- (biased - 1) * 2^52 + q' handles carry to 2^53
    let body : Int := (biased - 1) * (2^52 : Nat) + q'
    if body ≥ (2047 * 2^52 : Nat) then mkInf neg
    else ofBitsNat (body.toNat + (if neg then 2^63 else 0))

/-- round a signed dyadic  z * 2^e  -/
def roundDyadic (z : Int) (e : Int) (zeroNeg : Bool) : F64 :=
  if z == 0 then mkZero zeroNeg
  else
    let neg := z < 0
    let m := z.natAbs
    if e ≥ 0 then roundRatio neg (m <<< e.toNat) 1 else roundRatio neg m (1 <<< (-e).toNat)

def sInt (neg : Bool) (m : Nat) : Int := if neg then -(m : Int) else m

def add (a b : F64) : F64 :=
  match a.view, b.view with
  | .nan, _ => canonNaN
  | _, .nan => canonNaN
  | .inf s, .inf t => if s == t then mkInf s else canonNaN
  | .inf s, _ => mkInf s
  | _, .inf t => mkInf t
  | .fin s m e, .fin t n f =>
    let g := min e f
    let z := sInt s m * (2 : Int) ^ (e - g).toNat + sInt t n * (2 : Int) ^ (f - g).toNat
    -- exact zero sum: -0 only if both operands are (negative) zeros / same-sign neg
    let zeroNeg := (m == 0 && n == 0 && s && t)
    roundDyadic z g zeroNeg

def neg (a : F64) : F64 := ⟨a.bits ^^^ 0x8000000000000000⟩
def abs (a : F64) : F64 := ⟨a.bits &&& 0x7FFFFFFFFFFFFFFF⟩
def sub (a b : F64) : F64 := add a (neg b)   -- NaN payload/sign not tracked

def mul (a b : F64) : F64 :=
  match a.view, b.view with
  | .nan, _ => canonNaN
  | _, .nan => canonNaN
  | .inf s, .inf t => mkInf (s != t)
  | .inf s, .fin t n _ => if n == 0 then canonNaN else mkInf (s != t)
  | .fin s m _, .inf t => if m == 0 then canonNaN else mkInf (s != t)
  | .fin s m e, .fin t n f =>
    roundDyadic (sInt (s != t) (m * n)) (e + f) (s != t)

def div (a b : F64) : F64 :=
  match a.view, b.view with
  | .nan, _ => canonNaN
  | _, .nan => canonNaN
  | .inf _, .inf _ => canonNaN
  | .inf s, .fin t _ _ => mkInf (s != t)
  | .fin s _ _, .inf t => mkZero (s != t)
  | .fin s m e, .fin t n f =>
    if n == 0 then (if m == 0 then canonNaN else mkInf (s != t))
    else if m == 0 then mkZero (s != t)
    else
      -- m*2^e / (n*2^f) = (m / n) * 2^(e-f)
      let k := e - f
      if k ≥ 0 then roundRatio (s != t) (m <<< k.toNat) n else roundRatio (s != t) m (n <<< (-k).toNat)

def fma (a b c : F64) : F64 :=
  match a.view, b.view, c.view with
  | .nan, _, _ => canonNaN
  | _, .nan, _ => canonNaN
  | _, _, .nan => canonNaN
  | .inf s, .inf t, .inf r => if (s != t) == r then mkInf r else canonNaN
  | .inf s, .inf t, .fin _ _ _ => mkInf (s != t)
  | .inf s, .fin t n _, .inf r => if n == 0 then canonNaN else if (s != t) == r then mkInf r else canonNaN
  | .inf s, .fin t n _, .fin _ _ _ => if n == 0 then canonNaN else mkInf (s != t)
  | .fin s m _, .inf t, .inf r => if m == 0 then canonNaN else if (s != t) == r then mkInf r else canonNaN
  | .fin s m _, .inf t, .fin _ _ _ => if m == 0 then canonNaN else mkInf (s != t)
  | .fin _ _ _, .fin _ _ _, .inf r => mkInf r
  | .fin s m e, .fin t n f, .fin r p h =>
    let ps := s != t
    let pe := e + f
    let g := min pe h
    let z := sInt ps (m * n) * (2 : Int) ^ (pe - g).toNat + sInt r p * (2 : Int) ^ (h - g).toNat
    let zeroNeg := ((m * n == 0) && p == 0 && ps && r)
    roundDyadic z g zeroNeg

/-- ordering key for non-NaN values (±0 ↦ 0); meaningless on NaN -/
def key (a : F64) : Int :=
  let mag : Int := (a.bits &&& 0x7FFFFFFFFFFFFFFF).toNat
  if a.signBit then -mag else mag

def lt (a b : F64) : Bool := !a.isNaN && !b.isNaN && key a < key b
def le (a b : F64) : Bool := !a.isNaN && !b.isNaN && key a ≤ key b
def gt (a b : F64) : Bool := lt b a
def ge (a b : F64) : Bool := le b a
def feq (a b : F64) : Bool := !a.isNaN && !b.isNaN && key a == key b

def ofHex? (s : String) : Option F64 :=
  let rec go (cs : List Char) (acc : Nat) : Option Nat :=
    match cs with
    | [] => some acc
    | c :: cs =>
      let d := if '0' ≤ c ∧ c ≤ '9' then some (c.toNat - '0'.toNat)
               else if 'a' ≤ c ∧ c ≤ 'f' then some (c.toNat - 'a'.toNat + 10) else none
      match d with
      | some d => go cs (acc * 16 + d)
      | none => none
  (go s.toList 0).map ofBitsNat

def toHex (a : F64) : String :=
  let n := a.bits.toNat
  let digs := (List.range 16).reverse.map fun i =>
    let d := (n >>> (4 * i)) % 16
    Char.ofNat (if d < 10 then '0'.toNat + d else 'a'.toNat + d - 10)
  String.ofList digs

end F64
