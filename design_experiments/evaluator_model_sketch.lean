/-! Prototype: evaluator model and agreement with direct selection (core Lean only). -/

class FOrd (F : Type) where
  isNaN : F → Bool
  key : F → Int

open FOrd

variable {F : Type} [FOrd F]

def fgt (a b : F) : Bool := !isNaN a && !isNaN b && decide (key a > key b)
def fge (a b : F) : Bool := !isNaN a && !isNaN b && decide (key a ≥ key b)
def fle (a b : F) : Bool := fge b a
def flt (a b : F) : Bool := fgt b a

/-- direct: index selected by Piecewise::evaluate among `ends` (non-empty) -/
def selDirect (ends : List F) (x : F) : Nat :=
  let i := ends.findIdx (fun e => fgt e x)
  if i < ends.length then i else ends.length - 1

structure EvSt (F : Type) where
  pos : Nat      -- number of front segments skipped: tail = front.drop pos
  last : F

/-- forward scan: number of leading elements of `tail` with ¬ (end > x) -/
def fwdSkip (tail : List F) (x : F) : Nat := (tail.takeWhile (fun e => !fgt e x)).length

/-- backward: search `inFront` from the back for the last index with end <= x -/
def bwdFind (inFront : List F) (x : F) : Option Nat :=
  let r := inFront.reverse.findIdx (fun e => fle e x)
  if r < inFront.length then some (inFront.length - 1 - r) else none

/-- one query; `front` = ends of all-but-last segments. Returns new state and selected index
    (index `front.length` means the last segment). -/
def evStep (front : List F) (s : EvSt F) (x : F) : EvSt F × Nat :=
  if fge x s.last then
    let pos' := s.pos + fwdSkip (front.drop s.pos) x
    (⟨pos', x⟩, pos')
  else
    let inFront := front.take (front.length - (front.length - s.pos))   -- saturating_sub(tail.len())
    let pos' := match bwdFind inFront x with
      | some ix => min (ix + 1) front.length   -- split_at_checked(ix+1) or empty
      | none => 0
    (⟨pos', x⟩, pos')

def evInit (front : List F) (lastEnd : F) : EvSt F :=
  ⟨0, match front with | [] => lastEnd | e :: _ => e⟩

def evRun (front : List F) (s : EvSt F) : List F → List Nat
  | [] => []
  | x :: xs => let (s', i) := evStep front s x; i :: evRun front s' xs

/-- canonical position: number of elements with key ≤ key x, for sorted lists -/
def cnt (l : List F) (x : F) : Nat := (l.takeWhile (fun e => decide (key e ≤ key x))).length

def Sorted (l : List F) : Prop := l.Pairwise (fun a b => key a ≤ key b)
def NoNaN (l : List F) : Prop := ∀ e ∈ l, isNaN e = false

theorem not_fgt_iff {e x : F} (he : isNaN e = false) (hx : isNaN x = false) :
    (!fgt e x) = decide (key e ≤ key x) := by
  simp [fgt, he, hx, Int.not_lt]

theorem fle_iff {e x : F} (he : isNaN e = false) (hx : isNaN x = false) :
    fle e x = decide (key e ≤ key x) := by
  simp [fle, fge, he, hx]

theorem takeWhile_congr_mem {α} (p q : α → Bool) (l : List α) (h : ∀ a ∈ l, p a = q a) :
    l.takeWhile p = l.takeWhile q := by
  induction l with
  | nil => rfl
  | cons a l ih =>
    simp only [List.takeWhile_cons, h a (List.mem_cons_self)]
    split
    · rw [ih (fun b hb => h b (List.mem_cons_of_mem _ hb))]
    · rfl

theorem fwdSkip_eq_cnt (l : List F) (x : F) (hl : NoNaN l) (hx : isNaN x = false) :
    fwdSkip l x = cnt l x := by
  unfold fwdSkip cnt
  rw [takeWhile_congr_mem _ (fun e => decide (key e ≤ key x)) l]
  intro a ha
  exact not_fgt_iff (hl a ha) hx

/-- for sorted l, cnt over drop -/
theorem cnt_drop (l : List F) (x : F) (n : Nat) (hs : Sorted l)
    (hpre : ∀ e ∈ l.take n, key e ≤ key x) (hn : n ≤ l.length) :
    n + cnt (l.drop n) x = cnt l x := by
  induction l generalizing n with
  | nil => simp at hn; subst hn; simp [cnt]
  | cons a l ih =>
    cases n with
    | zero => simp
    | succ n =>
      have ha : key a ≤ key x := hpre a (by simp)
      have := ih n (List.Pairwise.of_cons hs) (fun e he => hpre e (by simp [he])) (by simpa using hn)
      simp only [List.drop_succ_cons, cnt, List.takeWhile_cons, ha, decide_true, if_true, List.length_cons] at *
      omega
