// xorshift PRNG; emits "op a b c expected"
struct R(u64);
impl R { fn n(&mut self)->u64{ let mut x=self.0; x^=x<<13; x^=x>>7; x^=x<<17; self.0=x; x } }
fn gen(r:&mut R)->f64{
    let k = r.n()%10;
    let specials=[0.0,-0.0,1.0,-1.0,f64::INFINITY,f64::NEG_INFINITY,f64::NAN,f64::MIN_POSITIVE,f64::MAX,5e-324,f64::EPSILON,2.0,0.5,3.0,1e-310,-1e-310, f64::MAX/2.0, 1.5];
    match k {
        0 => specials[(r.n()%specials.len() as u64) as usize],
        1 => f64::from_bits(r.n()),
        2 => { // near 1
            f64::from_bits(1.0f64.to_bits().wrapping_add(r.n()%64).wrapping_sub(32)) }
        3 => { // small ints
            ((r.n()%2001) as f64 - 1000.0) }
        4 => { // subnormal-ish
            f64::from_bits(r.n() & 0x801F_FFFF_FFFF_FFFF) }
        5 => { // huge
            f64::from_bits((r.n() & 0x800F_FFFF_FFFF_FFFF) | (0x7FD0_0000_0000_0000 + ((r.n()%3)<<52))) }
        _ => { // moderate exponent
            let e = 1023 - 40 + r.n()%80; f64::from_bits((r.n() & 0x800F_FFFF_FFFF_FFFF) | (e<<52)) }
    }
}
fn main(){
    let n: usize = std::env::args().nth(1).unwrap().parse().unwrap();
    let mut r=R(0x9E3779B97F4A7C15);
    let ops=["add","sub","mul","div","fma","lt","le"];
    for _ in 0..n {
        let op=ops[(r.n()%ops.len() as u64) as usize];
        let (a,b,c)=(gen(&mut r),gen(&mut r),gen(&mut r));
        let res = match op {"add"=>a+b,"sub"=>a-b,"mul"=>a*b,"div"=>a/b,"fma"=>a.mul_add(b,c),
            "lt"=>f64::from_bits((a<b) as u64),"le"=>f64::from_bits((a<=b) as u64),_=>unreachable!()};
        let res = if res.is_nan() {f64::from_bits(0x7FF8000000000000)} else {res};
        println!("{} {:016x} {:016x} {:016x} {:016x}",op,a.to_bits(),b.to_bits(),c.to_bits(),res.to_bits());
    }
}
