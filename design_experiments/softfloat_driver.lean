import Sf.F64
open F64

def step (line : String) : String :=
  match line.trimAscii.toString.splitOn " " with
  | [op, a, b, c] =>
    match ofHex? a, ofHex? b, ofHex? c with
    | some a, some b, some c =>
      let r := match op with
        | "add" => add a b | "sub" => sub a b | "mul" => mul a b | "div" => div a b
        | "fma" => fma a b c
        | "lt" => if lt a b then ⟨1⟩ else ⟨0⟩
        | "le" => if le a b then ⟨1⟩ else ⟨0⟩
        | _ => canonNaN
      toHex r
    | _, _, _ => "bad"
  | _ => "bad"

partial def loop (h : IO.FS.Stream) (out : IO.FS.Stream) : IO Unit := do
  let line ← h.getLine
  if line.isEmpty then return ()
  out.putStrLn (step line)
  loop h out

def main : IO Unit := do loop (← IO.getStdin) (← IO.getStdout)
