/-! as-if-generated model skeleton (core only) -/
class FloatLike (F : Type) where
  add : F → F → F
  sub : F → F → F
  mul : F → F → F
  div : F → F → F
  neg : F → F
  fma : F → F → F → F
  ofDec : Int → Int → F
  lt : F → F → Bool
  le : F → F → Bool
class FloatTrans (F : Type) extends FloatLike F where
  ln : F → F
  exp : F → F
export FloatLike (add sub mul div neg fma ofDec)
export FloatTrans (ln exp)

structure Arr2 (F : Type) where
  a0 : F
  a1 : F
structure Arr3 (F : Type) where
  a0 : F
  a1 : F
  a2 : F
structure Arr4 (F : Type) where
  a0 : F
  a1 : F
  a2 : F
  a3 : F
def Arr3.map {F G} (f : F → G) (a : Arr3 F) : Arr3 G := ⟨f a.a0, f a.a1, f a.a2⟩

structure Knot (F : Type) where
  x : F
  y : F

-- traits
class Evaluate (T : Type) (F : outParam Type) where evaluate : T → F → F
class HasDerivative (T : Type) (D : outParam Type) where derivative : T → D
class Translate (T : Type) (F : outParam Type) where translate : T → F → T
class HasIntegral (T : Type) (F : outParam Type) (I : outParam Type) where
  indefinite : T → I
  integral : T → Knot F → I
class MulScalar (T : Type) (S : Type) (O : outParam Type) where mul : T → S → O
class MulAssignScalar (T : Type) (S : Type) where mulAssign : T → S → T
class NegT (T : Type) (O : outParam Type) where neg : T → O
class AddT (T : Type) (O : outParam Type) where add : T → T → O

structure Poly0 (F : Type) where _0 : F
structure Poly1 (F : Type) where _0 : Arr2 F
structure Poly2 (F : Type) where _0 : Arr3 F
structure Poly3 (F : Type) where _0 : Arr4 F
structure Log (T : Type) where _0 : T
structure IntOfLog (F : Type) (T : Type) where
  k : F
  poly : T
structure Segment (F : Type) (T : Type) where
  «end» : F
  poly : T

variable {F : Type}

-- poly.rs (hand-written as the translator would emit)
instance [FloatLike F] : Evaluate (Poly2 F) F where
  evaluate self x :=
    let x2 := mul x x
    let c := self._0
    fma c.a2 x2 (fma c.a1 x c.a0)
instance [FloatLike F] : Evaluate (Poly3 F) F where
  evaluate self x :=
    let x2 := mul x x
    let c := self._0
    let t0 := fma c.a1 x c.a0
    let t1 := fma c.a3 x c.a2
    fma t1 x2 t0
instance [FloatLike F] : Evaluate (Poly1 F) F where
  evaluate self x := let c := self._0; fma c.a1 x c.a0
instance [FloatLike F] : HasDerivative (Poly2 F) (Poly1 F) where
  derivative self :=
    let coeffs := self._0
    let dst : Arr2 F := ⟨coeffs.a1, mul (ofDec 20 (-1)) coeffs.a2⟩
    ⟨dst⟩
instance [FloatLike F] : HasDerivative (Poly3 F) (Poly2 F) where
  derivative self :=
    let coeffs := self._0
    let dst : Arr3 F := ⟨coeffs.a1, mul (ofDec 20 (-1)) coeffs.a2, mul (ofDec 30 (-1)) coeffs.a3⟩
    ⟨dst⟩
instance [FloatLike F] : Translate (Poly3 F) F where
  translate self v := { self with _0 := { self._0 with a0 := add self._0.a0 v } }
instance [FloatLike F] : Translate (Poly2 F) F where
  translate self v := { self with _0 := { self._0 with a0 := add self._0.a0 v } }
instance [FloatLike F] : HasIntegral (Poly2 F) F (Poly3 F) where
  indefinite self :=
    let dst : Arr4 F := ⟨ofDec 0 0, self._0.a0, div self._0.a1 (ofDec 20 (-1)), div self._0.a2 (ofDec 30 (-1))⟩
    ⟨dst⟩
  integral self knot :=
    let indef : Poly3 F :=
      (let dst : Arr4 F := ⟨ofDec 0 0, self._0.a0, div self._0.a1 (ofDec 20 (-1)), div self._0.a2 (ofDec 30 (-1))⟩; ⟨dst⟩)
    let indef := Translate.translate indef (sub knot.y (Evaluate.evaluate indef knot.x))
    indef
instance [FloatLike F] : MulScalar (Poly2 F) F (Poly2 F) where
  mul self rhs := ⟨⟨mul self._0.a0 rhs, mul self._0.a1 rhs, mul self._0.a2 rhs⟩⟩
instance [FloatLike F] : MulAssignScalar (Poly2 F) F where
  mulAssign self rhs := { self with _0 := self._0.map (fun x => mul x rhs) }
instance [FloatLike F] : NegT (Poly2 F) (Poly2 F) where
  neg self := MulScalar.mul self (ofDec (-10) (-1) : F)

-- log_poly.rs generic impls
instance {T S O} [MulScalar T S O] : MulScalar (Log T) S (Log O) where
  mul self rhs := ⟨MulScalar.mul self._0 rhs⟩
instance {T} [FloatTrans F] [Evaluate T F] : Evaluate (Log T) F where
  evaluate self v := Evaluate.evaluate self._0 (ln v)
instance {T} [Translate T F] : Translate (Log T) F where
  translate self v := { self with _0 := Translate.translate self._0 v }
instance {T} [FloatTrans F] [Evaluate T F] : Evaluate (IntOfLog F T) F where
  evaluate self v := add self.k (Evaluate.evaluate self.poly (ln v))
instance {T} [FloatLike F] : Translate (IntOfLog F T) F where
  translate self v := { self with k := add self.k v }
instance [FloatTrans F] : HasIntegral (Log (Poly2 F)) F (IntOfLog F (Poly2 F)) where
  indefinite self :=
    let c := self._0._0.a2
    let b := sub self._0._0.a1 (mul (ofDec 20 (-1)) c)
    let a := sub self._0._0.a0 b
    { k := ofDec 0 0, poly := ⟨⟨a, b, c⟩⟩ }
  integral self knot :=
    let indef : IntOfLog F (Poly2 F) :=
      (let c := self._0._0.a2
       let b := sub self._0._0.a1 (mul (ofDec 20 (-1)) c)
       let a := sub self._0._0.a0 b
       { k := ofDec 0 0, poly := ⟨⟨a, b, c⟩⟩ })
    Translate.translate indef (sub knot.y (Evaluate.evaluate indef knot.x))

-- piecewise.rs Segment<T>
instance {T} [Evaluate T F] : Evaluate (Segment F T) F where
  evaluate self v := Evaluate.evaluate self.poly v
instance {T D} [HasDerivative T D] : HasDerivative (Segment F T) (Segment F D) where
  derivative self := { «end» := self.end, poly := HasDerivative.derivative self.poly }
instance {T} [Translate T F] : Translate (Segment F T) F where
  translate self v := { self with poly := Translate.translate self.poly v }
instance {T I} [FloatLike F] [HasIntegral T F I] [Translate I F] [Evaluate I F] : HasIntegral (Segment F T) F (Segment F I) where
  indefinite self := { «end» := self.end, poly := HasIntegral.indefinite self.poly }
  integral self knot :=
    let indef : Segment F I := { «end» := self.end, poly := HasIntegral.indefinite self.poly }
    Translate.translate indef (sub knot.y (Evaluate.evaluate indef knot.x))
