/-! core-only: rounding of a positive ratio to 53 significant bits (RNE), decoded output -/

/-- floor(log2 (num/den)) for num, den > 0 -/
def floorLog2Ratio (num den : Nat) : Int :=
  let t : Int := (Nat.log2 num : Int) - (Nat.log2 den : Int)
  let ge : Bool := if t ≥ 0 then decide (den * 2 ^ t.toNat ≤ num) else decide (den ≤ num * 2 ^ (-t).toNat)
  if ge then t else t - 1

/-- scale so that value = n/d * 2^e -/
def scaleBy (num den : Nat) (e : Int) : Nat × Nat :=
  if e ≥ 0 then (num, den * 2 ^ e.toNat) else (num * 2 ^ (-e).toNat, den)

def rne (n d : Nat) : Nat :=
  let q := n / d
  let r := n % d
  if 2 * r > d then q + 1 else if 2 * r = d then q + q % 2 else q

/-- (significand, exponent): value ≈ significand * 2^exponent -/
def roundPos (num den : Nat) : Nat × Int :=
  let fl := floorLog2Ratio num den
  let e : Int := max (fl - 52) (-1074)
  let nd := scaleBy num den e
  (rne nd.1 nd.2, e)
