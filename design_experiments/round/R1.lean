import Mathlib.Tactic.Ring
import Mathlib.Tactic.Linarith
import Mathlib.Tactic.FieldSimp
import Mathlib.Tactic.Positivity
import Mathlib.Tactic.NormNum
import Mathlib.Tactic.Push
import Mathlib.Algebra.Order.Field.Basic
import Mathlib.Algebra.Order.Field.Power
import Mathlib.Data.Rat.Cast.Order
import Mathlib.Data.Nat.Log
import R0

theorem rne_close (n d : Nat) (hd : 0 < d) :
    |((rne n d : Nat) : ℚ) - (n : ℚ) / d| ≤ 1 / 2 := by
  have hdq : (0 : ℚ) < d := by exact_mod_cast hd
  have hdiv : (n : ℚ) = (n / d : Nat) * d + (n % d : Nat) := by
    have := Nat.div_add_mod n d
    have h2 : ((d * (n / d) + n % d : Nat) : ℚ) = n := by exact_mod_cast congrArg (fun x : Nat => (x : ℚ)) this
    push_cast at h2; linarith
  have hr : (n % d : Nat) < d := Nat.mod_lt _ hd
  have hrq : ((n % d : Nat) : ℚ) < d := by exact_mod_cast hr
  have hr0 : (0 : ℚ) ≤ (n % d : Nat) := by positivity
  have key : (n : ℚ) / d = (n / d : Nat) + ((n % d : Nat) : ℚ) / d := by
    rw [hdiv]; field_simp
  unfold rne
  simp only []
  split
  · -- 2r > d : q+1
    rename_i h
    have hq : (d : ℚ) < 2 * ((n % d : Nat) : ℚ) := by exact_mod_cast h
    rw [key]; push_cast
    rw [abs_le]; constructor
    · have : ((n % d : Nat) : ℚ) / d ≤ 1 := by rw [div_le_one hdq]; linarith
      linarith
    · have : (1:ℚ)/2 ≤ ((n % d : Nat) : ℚ) / d := by rw [le_div_iff₀ hdq]; linarith
      linarith
  · split
    · rename_i h1 h
      have hq : 2 * ((n % d : Nat) : ℚ) = d := by exact_mod_cast h
      have hfrac : ((n % d : Nat) : ℚ) / d = 1/2 := by rw [div_eq_iff hdq.ne']; linarith
      rw [key, hfrac]; push_cast
      rcases Nat.mod_two_eq_zero_or_one (n / d) with h0 | h0 <;> rw [h0] <;> norm_num
    · rename_i h1 h2
      have hq : 2 * ((n % d : Nat) : ℚ) < d := by
        have : 2 * (n % d) < d := by omega
        exact_mod_cast this
      rw [key]
      have h0 : 0 ≤ ((n % d : Nat) : ℚ) / d := by positivity
      have : ((n % d : Nat) : ℚ) / d ≤ 1/2 := by rw [div_le_iff₀ hdq]; linarith
      rw [abs_le]; constructor <;> linarith
