import Mathlib.Tactic.Ring
import Mathlib.Tactic.Linarith
import Mathlib.Tactic.FieldSimp
import Mathlib.Tactic.Positivity
import Mathlib.Tactic.NormNum
import Mathlib.Tactic.Push
import Mathlib.Algebra.Order.Field.Basic
import Mathlib.Algebra.Order.Field.Power
import Mathlib.Data.Rat.Cast.Order
import R0

/-- spec of floorLog2Ratio -/
theorem flr_spec (num den : Nat) (hn : 0 < num) (hd : 0 < den) :
    (2:ℚ) ^ (floorLog2Ratio num den) ≤ (num:ℚ) / den ∧ (num:ℚ) / den < (2:ℚ) ^ (floorLog2Ratio num den + 1) := by
  have hdq : (0:ℚ) < den := by exact_mod_cast hd
  have hnq : (0:ℚ) < num := by exact_mod_cast hn
  have a1 : ((2 ^ num.log2 : Nat) : ℚ) ≤ num := by exact_mod_cast Nat.log2_self_le hn.ne'
  have a2 : (num : ℚ) < ((2 ^ (num.log2 + 1) : Nat) : ℚ) := by exact_mod_cast (Nat.lt_log2_self (n := num))
  have b1 : ((2 ^ den.log2 : Nat) : ℚ) ≤ den := by exact_mod_cast Nat.log2_self_le hd.ne'
  have b2 : (den : ℚ) < ((2 ^ (den.log2 + 1) : Nat) : ℚ) := by exact_mod_cast (Nat.lt_log2_self (n := den))
  push_cast at a1 a2 b1 b2
  -- general bounds: 2^(t-1) < num/den < 2^(t+1)
  have two_pos : (0:ℚ) < 2 := by norm_num
  set a := num.log2
  set b := den.log2
  have lo : (2:ℚ) ^ ((a:Int) - b - 1) < (num:ℚ) / den := by
    rw [lt_div_iff₀ hdq]
    have : (2:ℚ) ^ ((a:Int) - b - 1) * (2:ℚ)^(b+1) = 2 ^ a := by
      rw [← zpow_natCast, ← zpow_natCast, ← zpow_add₀ (by norm_num)]; congr 1; push_cast; ring
    calc (2:ℚ) ^ ((a:Int) - b - 1) * den < (2:ℚ) ^ ((a:Int) - b - 1) * 2^(b+1) := by
            apply mul_lt_mul_of_pos_left b2 (zpow_pos two_pos _)
      _ = 2^a := this
      _ ≤ num := a1
  have hi : (num:ℚ) / den < (2:ℚ) ^ ((a:Int) - b + 1) := by
    rw [div_lt_iff₀ hdq]
    have : (2:ℚ) ^ ((a:Int) - b + 1) * (2:ℚ)^b = 2 ^ (a+1) := by
      rw [← zpow_natCast, ← zpow_natCast, ← zpow_add₀ (by norm_num)]; congr 1; push_cast; ring
    calc (num:ℚ) < 2^(a+1) := a2
      _ = (2:ℚ) ^ ((a:Int) - b + 1) * 2^b := this.symm
      _ ≤ (2:ℚ) ^ ((a:Int) - b + 1) * den := by
            apply mul_le_mul_of_nonneg_left b1 (le_of_lt (zpow_pos two_pos _))
  -- the test decides whether 2^t ≤ num/den
  have test : ((if (a:Int) - b ≥ 0 then decide (den * 2 ^ ((a:Int) - b).toNat ≤ num)
        else decide (den ≤ num * 2 ^ (-((a:Int) - b)).toNat)) = true
        ↔ (2:ℚ)^((a:Int) - b) ≤ (num:ℚ)/den) := by
    generalize (a:Int) - b = t
    rw [le_div_iff₀ hdq]
    split
    · rename_i h
      have ht : ((t.toNat : Nat) : Int) = t := Int.toNat_of_nonneg h
      rw [decide_eq_true_iff]
      have : (2:ℚ)^t = ((2 ^ t.toNat : Nat) : ℚ) := by
        conv_lhs => rw [← ht]
        push_cast; rw [zpow_natCast]
      rw [this]
      constructor
      · intro hle; have : ((den * 2 ^ t.toNat : Nat) : ℚ) ≤ num := by exact_mod_cast hle
        push_cast at this ⊢; linarith
      · intro hle; have : ((den * 2 ^ t.toNat : Nat) : ℚ) ≤ num := by push_cast at hle ⊢; linarith
        exact_mod_cast this
    · rename_i h
      have h' : 0 ≤ -t := by omega
      have ht : (((-t).toNat : Nat) : Int) = -t := Int.toNat_of_nonneg h'
      rw [decide_eq_true_iff]
      have e2 : (2:ℚ)^t * ((2 ^ (-t).toNat : Nat) : ℚ) = 1 := by
        push_cast; rw [← zpow_natCast, ht, ← zpow_add₀ (by norm_num)]; simp
      have p2 : (0:ℚ) < ((2 ^ (-t).toNat : Nat) : ℚ) := by positivity
      constructor
      · intro hle
        have h1 : ((den : Nat) : ℚ) ≤ ((num * 2 ^ (-t).toNat : Nat) : ℚ) := by exact_mod_cast hle
        push_cast at h1
        have := mul_le_mul_of_nonneg_left h1 (le_of_lt (zpow_pos two_pos t))
        push_cast at e2
        nlinarith [e2]
      · intro hle
        have := mul_le_mul_of_nonneg_right hle (le_of_lt p2)
        have h3 : (den:ℚ) ≤ num * ((2 ^ (-t).toNat : Nat) : ℚ) := by nlinarith [e2]
        exact_mod_cast h3
  have hdef : floorLog2Ratio num den =
      if (if (a:Int) - b ≥ 0 then decide (den * 2 ^ ((a:Int) - b).toNat ≤ num)
        else decide (den ≤ num * 2 ^ (-((a:Int) - b)).toNat)) = true then (a:Int) - b else (a:Int) - b - 1 := rfl
  rw [hdef]
  by_cases hge : (if (a:Int) - b ≥ 0 then decide (den * 2 ^ ((a:Int) - b).toNat ≤ num)
        else decide (den ≤ num * 2 ^ (-((a:Int) - b)).toNat)) = true
  · rw [if_pos hge]
    exact ⟨test.mp hge, hi⟩
  · rw [if_neg hge]
    have hlt : ¬ ((2:ℚ)^((a:Int) - b) ≤ (num:ℚ)/den) := fun h => hge (test.mpr h)
    rw [not_le] at hlt
    refine ⟨le_of_lt lo, ?_⟩
    have : (a:Int) - b - 1 + 1 = (a:Int) - b := by ring
    rw [this]; exact hlt
