import Mathlib.Tactic.Ring
import Mathlib.Tactic.Linarith
import Mathlib.Tactic.FieldSimp
import Mathlib.Tactic.Positivity
import Mathlib.Tactic.NormNum
import Mathlib.Tactic.Push
import Mathlib.Algebra.Order.Field.Basic
import Mathlib.Algebra.Order.Field.Power
import Mathlib.Data.Rat.Cast.Order
import R0
import R1
import R2

theorem scaleBy_ratio (num den : Nat) (hd : 0 < den) (e : Int) :
    ((scaleBy num den e).1 : ℚ) / ((scaleBy num den e).2 : ℚ) = ((num:ℚ) / den) / (2:ℚ)^e ∧ 0 < (scaleBy num den e).2 := by
  have hdq : (0:ℚ) < den := by exact_mod_cast hd
  unfold scaleBy
  split
  · rename_i h
    have ht : ((e.toNat : Nat) : Int) = e := Int.toNat_of_nonneg h
    have : (2:ℚ)^e = ((2 ^ e.toNat : Nat) : ℚ) := by
      conv_lhs => rw [← ht]
      push_cast; rw [zpow_natCast]
    refine ⟨?_, by positivity⟩
    simp only []
    rw [this]; push_cast; field_simp
  · rename_i h
    have h' : 0 ≤ -e := by omega
    have ht : (((-e).toNat : Nat) : Int) = -e := Int.toNat_of_nonneg h'
    have e2 : (2:ℚ)^e * ((2 ^ (-e).toNat : Nat) : ℚ) = 1 := by
      push_cast; rw [← zpow_natCast, ht, ← zpow_add₀ (by norm_num)]; simp
    refine ⟨?_, hd⟩
    simp only []
    push_cast at e2 ⊢
    have hpos : (0:ℚ) < (2:ℚ)^e := zpow_pos (by norm_num) e
    field_simp
    nlinarith [e2]

/-- The standard model for the rounding core: in the normal range the relative error is at most 2^-53. -/
theorem roundPos_rel (num den : Nat) (hn : 0 < num) (hd : 0 < den)
    (hnorm : -1074 ≤ floorLog2Ratio num den - 52) :
    |((roundPos num den).1 : ℚ) * (2:ℚ)^((roundPos num den).2) - (num:ℚ)/den|
      ≤ (2:ℚ)^(-53:Int) * ((num:ℚ)/den) := by
  have hspec := flr_spec num den hn hd
  set fl := floorLog2Ratio num den with hfl
  have he : max (fl - 52) (-1074) = fl - 52 := max_eq_left hnorm
  unfold roundPos
  simp only [← hfl, he]
  obtain ⟨hr, hdpos⟩ := scaleBy_ratio num den hd (fl - 52)
  have hc := rne_close (scaleBy num den (fl - 52)).1 (scaleBy num den (fl - 52)).2 hdpos
  rw [hr] at hc
  set q : ℚ := ((rne (scaleBy num den (fl - 52)).1 (scaleBy num den (fl - 52)).2 : Nat) : ℚ)
  set v : ℚ := (num:ℚ)/den
  have hp : (0:ℚ) < (2:ℚ)^(fl - 52) := zpow_pos (by norm_num) _
  have h1 : q * (2:ℚ)^(fl - 52) - v = (q - v / (2:ℚ)^(fl - 52)) * (2:ℚ)^(fl - 52) := by
    field_simp
  rw [h1, abs_mul, abs_of_pos hp]
  have h2 : |q - v / (2:ℚ)^(fl - 52)| * (2:ℚ)^(fl - 52) ≤ (1/2) * (2:ℚ)^(fl - 52) :=
    mul_le_mul_of_nonneg_right hc (le_of_lt hp)
  have h3 : (1/2 : ℚ) * (2:ℚ)^(fl - 52) = (2:ℚ)^(-53:Int) * (2:ℚ)^fl := by
    rw [← zpow_add₀ (by norm_num : (2:ℚ) ≠ 0)]
    have : (-53:Int) + fl = (fl - 52) + (-1) := by ring
    rw [this, zpow_add₀ (by norm_num : (2:ℚ) ≠ 0)]
    norm_num; ring
  have h4 : (2:ℚ)^(-53:Int) * (2:ℚ)^fl ≤ (2:ℚ)^(-53:Int) * v :=
    mul_le_mul_of_nonneg_left hspec.1 (le_of_lt (zpow_pos (by norm_num) _))
  linarith
#print axioms roundPos_rel
