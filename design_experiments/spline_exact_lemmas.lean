import Mathlib.Tactic.Ring
import Mathlib.Tactic.Linarith
import Mathlib.Tactic.FieldSimp
import Mathlib.Tactic.Positivity
import Mathlib.Algebra.Order.Field.Basic

variable {K : Type} [Field K] [LinearOrder K] [IsStrictOrderedRing K]

-- exact semantics of spline.rs `segment`
def segA (f0 x0 y0 f1 x1 y1 : K) : K × K × K × K :=
  let dy := y1 - y0
  let dx := x1 - x0
  let slope := dy / dx
  let x0x0 := x0 * x0
  let f0dd := 2 * (3 * slope - (f1 + 2 * f0)) / dx
  let f1dd := 2 * ((2 * f1 + f0) - 3 * slope) / dx
  let d := (1 / 6) * (f1dd - f0dd) / dx
  let c := (1 / 2) * (x1 * f0dd - x0 * f1dd) / dx
  let b := slope - c * (x1 + x0) - d * (x1 * x1 + x1 * x0 + x0x0)
  let a := y0 - b * x0 - c * x0x0 - d * x0x0 * x0
  (a, b, c, d)

def ev (p : K × K × K × K) (x : K) : K := p.1 + p.2.1 * x + p.2.2.1 * x^2 + p.2.2.2 * x^3
def dv (p : K × K × K × K) (x : K) : K := p.2.1 + 2 * p.2.2.1 * x + 3 * p.2.2.2 * x^2

theorem seg_left (f0 x0 y0 f1 x1 y1 : K) (h : x0 < x1) : ev (segA f0 x0 y0 f1 x1 y1) x0 = y0 := by
  have hd : x1 - x0 ≠ 0 := by linarith [sub_pos.mpr h] |> ne_of_gt
  simp only [segA, ev]; field_simp; ring

theorem seg_right (f0 x0 y0 f1 x1 y1 : K) (h : x0 < x1) : ev (segA f0 x0 y0 f1 x1 y1) x1 = y1 := by
  have hd : x1 - x0 ≠ 0 := ne_of_gt (sub_pos.mpr h)
  simp only [segA, ev]; field_simp; ring

theorem seg_dleft (f0 x0 y0 f1 x1 y1 : K) (h : x0 < x1) : dv (segA f0 x0 y0 f1 x1 y1) x0 = f0 := by
  have hd : x1 - x0 ≠ 0 := ne_of_gt (sub_pos.mpr h)
  simp only [segA, dv]; field_simp; ring

theorem seg_dright (f0 x0 y0 f1 x1 y1 : K) (h : x0 < x1) : dv (segA f0 x0 y0 f1 x1 y1) x1 = f1 := by
  have hd : x1 - x0 ≠ 0 := ne_of_gt (sub_pos.mpr h)
  simp only [segA, dv]; field_simp; ring

-- Bernstein form of the derivative
theorem seg_deriv_bernstein (f0 x0 y0 f1 x1 y1 x : K) (h : x0 < x1) :
    dv (segA f0 x0 y0 f1 x1 y1) x * (x1 - x0)^2 =
      f0 * (x1 - x)^2 + (3 * ((y1 - y0)/(x1 - x0)) - f0 - f1) * (2 * (x - x0) * (x1 - x)) + f1 * (x - x0)^2 := by
  have hd : x1 - x0 ≠ 0 := ne_of_gt (sub_pos.mpr h)
  simp only [segA, dv]; field_simp; ring

-- nonnegativity of a B0 + m B1 + b B2 on [0,1]-like weights
theorem bern_nonneg (a m b p q : K) (ha : 0 ≤ a) (hb : 0 ≤ b) (hp : 0 ≤ p) (hq : 0 ≤ q)
    (hm : 0 ≤ m ∨ m^2 ≤ a * b) : 0 ≤ a * p^2 + m * (2 * q * p) + b * q^2 := by
  rcases hm with hm | hm
  · positivity
  · by_cases ha0 : a = 0
    · subst ha0
      have : m = 0 := by nlinarith [sq_nonneg m]
      subst this; simp; positivity
    · have hapos : 0 < a := lt_of_le_of_ne ha (Ne.symm ha0)
      have key : a * (a * p^2 + m * (2 * q * p) + b * q^2) = (a * p + m * q)^2 + (a * b - m^2) * q^2 := by ring
      have : 0 ≤ a * (a * p^2 + m * (2 * q * p) + b * q^2) := by
        rw [key]; have := sq_nonneg (a * p + m * q); have : 0 ≤ (a*b - m^2) * q^2 := mul_nonneg (by linarith) (sq_nonneg q); linarith
      exact nonneg_of_mul_nonneg_right this hapos |> fun h => h

theorem box_ok (al be : K) (h0 : 0 ≤ al) (h1 : al ≤ 3) (h2 : 0 ≤ be) (h3 : be ≤ 3) :
    0 ≤ 3 - al - be ∨ (3 - al - be)^2 ≤ al * be := by
  by_cases h : 0 ≤ 3 - al - be
  · left; exact h
  · right; push_neg at h; nlinarith [mul_nonneg (sub_nonneg.mpr h1) (sub_nonneg.mpr h3), mul_nonneg h0 h2]
