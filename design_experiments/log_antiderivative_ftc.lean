import Mathlib.Analysis.SpecialFunctions.Log.Deriv
import Mathlib.MeasureTheory.Integral.IntervalIntegral.FundThmCalculus

open Real

/-- Σ cs[i] x^i, Horner recursion on the list -/
def evalL : List ℝ → ℝ → ℝ
  | [], _ => 0
  | c :: cs, x => c + x * evalL cs x

/-- formal derivative: [c1, 2 c2, 3 c3, ...] -/
def derivAux : ℕ → List ℝ → List ℝ
  | _, [] => []
  | n, c :: cs => (n : ℝ) * c :: derivAux (n + 1) cs
def derivL : List ℝ → List ℝ
  | [] => []
  | _ :: cs => derivAux 1 cs

theorem hasDerivAt_evalAux (n : ℕ) (cs : List ℝ) (x : ℝ) :
    HasDerivAt (fun x => x ^ n * evalL cs x) (x ^ (n-1) * evalL (derivAux n cs) x) x ∧ True := by
  sorry

theorem hasDerivAt_mul_comp_log (Q : ℝ → ℝ) (Q' : ℝ) (t : ℝ) (ht : 0 < t)
    (hQ : HasDerivAt Q Q' (log t)) :
    HasDerivAt (fun t => t * Q (log t)) (Q (log t) + Q') t := by
  have h1 : HasDerivAt (fun t => Q (log t)) (Q' * t⁻¹) t := hQ.comp t (Real.hasDerivAt_log ht.ne')
  have h2 := (hasDerivAt_id t).mul h1
  convert h2 using 1
  simp only [id]; field_simp

theorem ftc_pos (F f : ℝ → ℝ) (a b : ℝ) (ha : 0 < a) (hb : 0 < b)
    (hF : ∀ t, 0 < t → HasDerivAt F (f t) t) (hf : ContinuousOn f (Set.Ioi 0)) :
    ∫ t in a..b, f t = F b - F a := by
  apply intervalIntegral.integral_eq_sub_of_hasDerivAt
  · intro t ht
    apply hF
    rcases Set.mem_uIcc.mp ht with ⟨h1, _⟩ | ⟨h1, _⟩ <;> linarith
  · apply ContinuousOn.intervalIntegrable
    apply hf.mono
    intro t ht
    rcases Set.mem_uIcc.mp ht with ⟨h1, _⟩ | ⟨h1, _⟩ <;> simp only [Set.mem_Ioi] <;> linarith
