import struct, mpmath as mp
mp.mp.prec=300
def f(h): return struct.unpack('>d', bytes.fromhex(h))[0]
worst=0; worstrow=None; n=0
for line in open('/tmp/scratch/c10.txt'):
    w=[f(t) for t in line.split()]
    v,k,c1,c2,c3,c4,u,out=w
    if not (out==out) or abs(out)==float('inf'): continue
    V=mp.mpf(v); x=-mp.log(V)
    if x==0: R=mp.mpf(1)/120
    else: R=(mp.e**x - sum(x**j/mp.factorial(j) for j in range(5)))/x**5
    terms=[mp.mpf(k)]+[V*mp.mpf(c)*x**(j+1) for j,c in enumerate([c1,c2,c3,c4])]+[mp.mpf(u)*V*x**5*R]
    exact=sum(terms); mag=sum(abs(t) for t in terms)
    if mag==0: continue
    err=abs(mp.mpf(out)-exact)/mag
    n+=1
    if err>worst: worst=err; worstrow=(v,float(x),float(err))
print(n, float(worst), worstrow)
