import Mathlib.Tactic.Ring
import Mathlib.Tactic.Linarith
import Mathlib.Tactic.Positivity
import Mathlib.Tactic.NormNum
import Mathlib.Algebra.Order.Field.Basic
import Mathlib.Algebra.Order.AbsoluteValue.Basic

class FloatLike (F : Type) where
  add : F → F → F
  mul : F → F → F
  fma : F → F → F → F
open FloatLike

structure Poly8 (F : Type) where
  c0 : F
  c1 : F
  c2 : F
  c3 : F
  c4 : F
  c5 : F
  c6 : F
  c7 : F
  c8 : F
def Poly8.map {F G} (f : F → G) (p : Poly8 F) : Poly8 G :=
  ⟨f p.c0, f p.c1, f p.c2, f p.c3, f p.c4, f p.c5, f p.c6, f p.c7, f p.c8⟩

def Poly8.evaluate {F} [FloatLike F] (self : Poly8 F) (x : F) : F :=
  let t0 := fma self.c1 x self.c0
  let t1 := fma self.c3 x self.c2
  let t2 := fma self.c5 x self.c4
  let t3 := fma self.c7 x self.c6
  let x2 := mul x x
  let left := fma t1 x2 t0
  let right2 := fma t3 x2 t2
  let x4 := mul x2 x2
  let right4 := fma right2 x4 left
  let x8 := mul x4 x4
  fma self.c8 x8 right4

variable {K : Type} [Field K] [LinearOrder K] [IsStrictOrderedRing K]

def Exact (K : Type) := K
instance : FloatLike (Exact K) where
  add := fun (a b : K) => a + b
  mul := fun (a b : K) => a * b
  fma := fun (a b c : K) => a * b + c

structure RModel (K : Type) [Field K] [LinearOrder K] [IsStrictOrderedRing K] where
  rnd : K → K
  u : K
  hu : 0 ≤ u
  h : ∀ x, |rnd x - x| ≤ u * |x|

def Rounded (M : RModel K) := K
instance (M : RModel K) : FloatLike (Rounded M) where
  add := fun (a b : K) => M.rnd (a + b)
  mul := fun (a b : K) => M.rnd (a * b)
  fma := fun (a b c : K) => M.rnd (a * b + c)

/-- counting semantics: |a - e| ≤ ((1+u)^k - 1) * A  and |e| ≤ A -/
structure Ct (M : RModel K) where
  e : K
  a : K
  A : K
  k : ℕ
  hA : |e| ≤ A
  inv : |a - e| ≤ ((1 + M.u)^k - 1) * A

theorem g_nonneg (M : RModel K) (k : ℕ) : 0 ≤ (1 + M.u)^k - 1 := by
  have : 1 ≤ (1 + M.u)^k := one_le_pow₀ (by linarith [M.hu])
  linarith

theorem g_mono (M : RModel K) {j k : ℕ} (h : j ≤ k) : (1 + M.u)^j - 1 ≤ (1 + M.u)^k - 1 := by
  have : (1 + M.u)^j ≤ (1 + M.u)^k := pow_le_pow_right₀ (by linarith [M.hu]) h
  linarith

/-- rounding step: if |t - e| ≤ g*A, |e| ≤ A then |rnd t - e| ≤ ((1+g)(1+u) - 1) A -/
theorem rnd_step (M : RModel K) (t e A g : K) (hg : 0 ≤ g) (hA : |e| ≤ A) (h : |t - e| ≤ g * A) :
    |M.rnd t - e| ≤ ((1 + g) * (1 + M.u) - 1) * A := by
  have hA0 : 0 ≤ A := le_trans (abs_nonneg _) hA
  have h1 := M.h t
  have h2 : |t| ≤ A + g * A := by
    calc |t| = |e + (t - e)| := by ring_nf
      _ ≤ |e| + |t - e| := abs_add_le _ _
      _ ≤ A + g * A := by linarith
  have h3 : M.u * |t| ≤ M.u * (A + g * A) := mul_le_mul_of_nonneg_left h2 M.hu
  calc |M.rnd t - e| = |(M.rnd t - t) + (t - e)| := by ring_nf
    _ ≤ |M.rnd t - t| + |t - e| := abs_add_le _ _
    _ ≤ M.u * (A + g * A) + g * A := by linarith
    _ = ((1 + g) * (1 + M.u) - 1) * A := by ring

def Ct.fma' (M : RModel K) (x y z : Ct M) : Ct M where
  e := x.e * y.e + z.e
  a := M.rnd (x.a * y.a + z.a)
  A := x.A * y.A + z.A
  k := max (x.k + y.k) z.k + 1
  hA := by
    have hx0 : 0 ≤ x.A := le_trans (abs_nonneg _) x.hA
    calc |x.e * y.e + z.e| ≤ |x.e * y.e| + |z.e| := abs_add_le _ _
      _ = |x.e| * |y.e| + |z.e| := by rw [abs_mul]
      _ ≤ x.A * y.A + z.A := by
        have := mul_le_mul x.hA y.hA (abs_nonneg _) hx0
        linarith [z.hA]
  inv := by
    set g := (1 + M.u)^(max (x.k + y.k) z.k) - 1 with hgdef
    have hx0 : 0 ≤ x.A := le_trans (abs_nonneg _) x.hA
    have hy0 : 0 ≤ y.A := le_trans (abs_nonneg _) y.hA
    have hz0 : 0 ≤ z.A := le_trans (abs_nonneg _) z.hA
    have hg : 0 ≤ g := g_nonneg M _
    have gx := g_nonneg M x.k
    have gy := g_nonneg M y.k
    -- product error
    have hp : |x.a * y.a - x.e * y.e| ≤ ((1 + M.u)^(x.k + y.k) - 1) * (x.A * y.A) := by
      have e1 : x.a * y.a - x.e * y.e = x.e * (y.a - y.e) + y.e * (x.a - x.e) + (x.a - x.e) * (y.a - y.e) := by ring
      rw [e1]
      have b1 : |x.e * (y.a - y.e)| ≤ x.A * (((1 + M.u)^y.k - 1) * y.A) := by
        rw [abs_mul]; exact mul_le_mul x.hA y.inv (abs_nonneg _) hx0
      have b2 : |y.e * (x.a - x.e)| ≤ y.A * (((1 + M.u)^x.k - 1) * x.A) := by
        rw [abs_mul]; exact mul_le_mul y.hA x.inv (abs_nonneg _) hy0
      have b3 : |(x.a - x.e) * (y.a - y.e)| ≤ (((1 + M.u)^x.k - 1) * x.A) * (((1 + M.u)^y.k - 1) * y.A) := by
        rw [abs_mul]; exact mul_le_mul x.inv y.inv (abs_nonneg _) (mul_nonneg gx hx0)
      calc _ ≤ |x.e * (y.a - y.e)| + |y.e * (x.a - x.e)| + |(x.a - x.e) * (y.a - y.e)| := abs_add_three _ _ _
        _ ≤ x.A * (((1 + M.u)^y.k - 1) * y.A) + y.A * (((1 + M.u)^x.k - 1) * x.A)
              + (((1 + M.u)^x.k - 1) * x.A) * (((1 + M.u)^y.k - 1) * y.A) := by linarith
        _ = ((1 + M.u)^(x.k + y.k) - 1) * (x.A * y.A) := by rw [pow_add]; ring
    have hp' : |x.a * y.a - x.e * y.e| ≤ g * (x.A * y.A) :=
      le_trans hp (mul_le_mul_of_nonneg_right (g_mono M (le_max_left _ _)) (mul_nonneg hx0 hy0))
    have hz' : |z.a - z.e| ≤ g * z.A :=
      le_trans z.inv (mul_le_mul_of_nonneg_right (g_mono M (le_max_right _ _)) hz0)
    have hsum : |x.a * y.a + z.a - (x.e * y.e + z.e)| ≤ g * (x.A * y.A + z.A) := by
      have : x.a * y.a + z.a - (x.e * y.e + z.e) = (x.a * y.a - x.e * y.e) + (z.a - z.e) := by ring
      rw [this]
      calc _ ≤ |x.a * y.a - x.e * y.e| + |z.a - z.e| := abs_add_le _ _
        _ ≤ g * (x.A * y.A + z.A) := by linarith
    have hAe : |x.e * y.e + z.e| ≤ x.A * y.A + z.A := by
      calc |x.e * y.e + z.e| ≤ |x.e * y.e| + |z.e| := abs_add_le _ _
        _ = |x.e| * |y.e| + |z.e| := by rw [abs_mul]
        _ ≤ x.A * y.A + z.A := by
          have := mul_le_mul x.hA y.hA (abs_nonneg _) hx0
          linarith [z.hA]
    have := rnd_step M _ _ _ g hg hAe hsum
    convert this using 2
    rw [hgdef, pow_succ]; ring

def Ct.inp (M : RModel K) (x : K) : Ct M := ⟨x, x, |x|, 0, le_refl _, by simp⟩
def Ct.zero (M : RModel K) : Ct M := ⟨0, 0, 0, 0, by simp, by simp⟩

instance (M : RModel K) : FloatLike (Ct M) where
  add x y := Ct.fma' M x (Ct.inp M 1) y   -- placeholder: x*1+y (k overcount by 0)
  mul x y := Ct.fma' M x y (Ct.zero M)
  fma := Ct.fma' M

example (M : RModel K) (p : Poly8 K) (x : K) :
    ((p.map (Ct.inp M)).evaluate (Ct.inp M x)).k = 8 := by rfl

example (M : RModel K) (p : Poly8 K) (x : K) :
    ((p.map (Ct.inp M)).evaluate (Ct.inp M x)).e = Poly8.evaluate (F := Exact K) p x := by
  simp [Poly8.evaluate, Poly8.map, Ct.inp, Ct.zero, Ct.fma', FloatLike.fma, FloatLike.mul]

example (M : RModel K) (p : Poly8 K) (x : K) :
    ((p.map (Ct.inp M)).evaluate (Ct.inp M x)).A = Poly8.evaluate (F := Exact K) (p.map (|·|)) (|x|) := by
  simp [Poly8.evaluate, Poly8.map, Ct.inp, Ct.zero, Ct.fma', FloatLike.fma, FloatLike.mul]
