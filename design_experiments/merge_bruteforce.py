import random, itertools
def sel(ends,x):
    for i,e in enumerate(ends):
        if e> x: return i
    return len(ends)-1
def merge(f,g):
    res=[];i=j=0;im=len(f)-1;jm=len(g)-1
    while True:
        a=f[i];b=g[j];al=i>=im;bl=j>=jm
        if a<b:
            if al: j+=1;end=b
            else: i+=1;end=a
        elif a>b:
            if bl: i+=1;end=a
            else: j+=1;end=b
        else:
            i0,j0=i,j
            i=min(im,i+1);j=min(jm,j+1);end=a
        res.append((end,(i if False else None)))
        res[-1]=(end,)
        yield_=None
        pieces.append((ai,bj)) if False else None
        if al and bl: break
    return res
# rewrite cleanly tracking pieces
def merge2(f,g):
    res=[];i=j=0;im=len(f)-1;jm=len(g)-1
    while True:
        ci,cj=i,j
        a=f[i];b=g[j];al=i>=im;bl=j>=jm
        if a<b:
            if al: j+=1;end=b
            else: i+=1;end=a
        elif a>b:
            if bl: i+=1;end=a
            else: j+=1;end=b
        else:
            i=min(im,i+1);j=min(jm,j+1);end=a
        res.append((end,ci,cj))
        if al and bl: break
    return res
bad=0;n=0
vals=[0,1,2,3,4]
for lf in range(1,5):
  for lg in range(1,5):
    for f in itertools.combinations_with_replacement(vals,lf):
      for g in itertools.combinations_with_replacement(vals,lg):
        r=merge2(f,g); n+=1
        ends=[e for e,_,_ in r]
        ok = ends==sorted(ends) and len(r)<=lf+lg-1 and set(ends)<=set(f)|set(g)
        for x in [-1,0,.5,1,1.5,2,2.5,3,3.5,4,5]:
            k=sel(ends,x)
            if (r[k][1],r[k][2])!=(sel(f,x),sel(g,x)): ok=False
        if not ok:
            bad+=1
            if bad<5: print(f,g,r)
print(n,bad)
