/-! Prototype: merge model for `+`/`-` and its theorems (core Lean only). Ends are Int keys. -/

variable {P Q : Type}

def den {A : Type} [Inhabited A] : List (Int × A) → Int → A
  | [], _ => default
  | [a], _ => a.2
  | a :: b :: rest, x => if a.1 > x then a.2 else den (b :: rest) x

def merge : List (Int × P) → List (Int × Q) → List (Int × (P × Q))
  | [], _ => []
  | _, [] => []
  | [a], [b] => [(if a.1 < b.1 then b.1 else a.1, (a.2, b.2))]
  | [a], b :: g :: gs =>
      (if a.1 < b.1 then b.1 else if b.1 < a.1 then b.1 else a.1, (a.2, b.2)) :: merge [a] (g :: gs)
  | a :: f :: fs, [b] =>
      (if a.1 < b.1 then a.1 else if b.1 < a.1 then a.1 else a.1, (a.2, b.2)) :: merge (f :: fs) [b]
  | a :: f :: fs, b :: g :: gs =>
      if a.1 < b.1 then (a.1, (a.2, b.2)) :: merge (f :: fs) (b :: g :: gs)
      else if b.1 < a.1 then (b.1, (a.2, b.2)) :: merge (a :: f :: fs) (g :: gs)
      else (a.1, (a.2, b.2)) :: merge (f :: fs) (g :: gs)
termination_by f g => f.length + g.length

theorem merge_ne_nil (f : List (Int × P)) (g : List (Int × Q)) (hf : f ≠ []) (hg : g ≠ []) :
    merge f g ≠ [] := by
  fun_cases merge f g <;> simp_all

theorem den_cons {A} [Inhabited A] (a : Int × A) (l : List (Int × A)) (x : Int) :
    den (a :: l) x = if l = [] then a.2 else if a.1 > x then a.2 else den l x := by
  cases l with
  | nil => simp [den]
  | cons b rest => simp [den]

theorem merge_cons_ne_nil (a : Int × P) (fs : List (Int × P)) (b : Int × Q) (gs : List (Int × Q)) :
    merge (a :: fs) (b :: gs) ≠ [] := merge_ne_nil _ _ (by simp) (by simp)

theorem den_merge [Inhabited P] [Inhabited Q] (f : List (Int × P)) (g : List (Int × Q)) (x : Int)
    (hf : f ≠ []) (hg : g ≠ []) :
    den (merge f g) x = (den f x, den g x) := by
  fun_induction merge f g <;>
    simp_all [den_cons, merge_cons_ne_nil] <;>
    (repeat' split) <;> (first | rfl | omega | (simp_all; done) | skip)

def Sorted {A} (l : List (Int × A)) : Prop := l.Pairwise (fun a b => a.1 ≤ b.1)

theorem merge_length (f : List (Int × P)) (g : List (Int × Q)) (hf : f ≠ []) (hg : g ≠ []) :
    (merge f g).length + 1 ≤ f.length + g.length := by
  fun_induction merge f g <;> simp_all <;> omega

/-- every emitted end is ≥ the smaller of the two head ends -/
theorem merge_lower (f : List (Int × P)) (g : List (Int × Q)) (m : Int)
    (hf : Sorted f) (hg : Sorted g) (hmf : ∀ a ∈ f, m ≤ a.1) (hmg : ∀ b ∈ g, m ≤ b.1) :
    ∀ e ∈ merge f g, m ≤ e.1 := by
  fun_induction merge f g <;> simp_all [Sorted] <;> (try (repeat' split)) <;> (try omega)

#print axioms den_merge
#print axioms merge_length
