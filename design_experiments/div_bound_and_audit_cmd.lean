import Mathlib.Tactic.Ring
import Mathlib.Tactic.Linarith
import Mathlib.Tactic.FieldSimp
import Mathlib.Tactic.Positivity
import Mathlib.Algebra.Order.Field.Basic
import Mathlib.Algebra.Order.AbsoluteValue.Basic

variable {K : Type} [Field K] [LinearOrder K] [IsStrictOrderedRing K]

theorem div_close (e1 a1 b1 e2 a2 b2 : K) (h1 : |a1 - e1| ≤ b1) (h2 : |a2 - e2| ≤ b2) (hb : b2 < |e2|) :
    |a1 / a2 - e1 / e2| ≤ (|e2| * b1 + |e1| * b2) / (|e2| * (|e2| - b2)) := by
  have hb2 : 0 ≤ b2 := le_trans (abs_nonneg _) h2
  have he2 : 0 < |e2| := lt_of_le_of_lt hb2 hb
  have he2' : e2 ≠ 0 := abs_pos.mp he2
  have ha2 : |e2| - b2 ≤ |a2| := by
    have : |e2| ≤ |a2| + |a2 - e2| := by
      calc |e2| = |a2 - (a2 - e2)| := by ring_nf
        _ ≤ |a2| + |a2 - e2| := abs_sub _ _
    linarith
  have hpos : 0 < |e2| - b2 := by linarith
  have ha2pos : 0 < |a2| := lt_of_lt_of_le hpos ha2
  have ha2' : a2 ≠ 0 := abs_pos.mp ha2pos
  have key : a1 / a2 - e1 / e2 = ((a1 - e1) * e2 - e1 * (a2 - e2)) / (a2 * e2) := by
    field_simp; ring
  rw [key, abs_div, abs_mul]
  have hnum : |(a1 - e1) * e2 - e1 * (a2 - e2)| ≤ |e2| * b1 + |e1| * b2 := by
    calc |(a1 - e1) * e2 - e1 * (a2 - e2)| ≤ |(a1 - e1) * e2| + |e1 * (a2 - e2)| := abs_sub _ _
      _ = |a1 - e1| * |e2| + |e1| * |a2 - e2| := by rw [abs_mul, abs_mul]
      _ ≤ b1 * |e2| + |e1| * b2 := by
          have := mul_le_mul_of_nonneg_right h1 (abs_nonneg e2)
          have := mul_le_mul_of_nonneg_left h2 (abs_nonneg e1)
          linarith
      _ = |e2| * b1 + |e1| * b2 := by ring
  have hnum0 : 0 ≤ |e2| * b1 + |e1| * b2 := le_trans (abs_nonneg _) hnum
  have hden : |e2| * (|e2| - b2) ≤ |a2| * |e2| := by
    rw [mul_comm |a2|]; exact mul_le_mul_of_nonneg_left ha2 (le_of_lt he2)
  have hdenpos : 0 < |e2| * (|e2| - b2) := mul_pos he2 hpos
  calc |(a1 - e1) * e2 - e1 * (a2 - e2)| / (|a2| * |e2|)
      ≤ (|e2| * b1 + |e1| * b2) / (|a2| * |e2|) := by
        apply div_le_div_of_nonneg_right hnum (le_of_lt (mul_pos ha2pos he2))
    _ ≤ (|e2| * b1 + |e1| * b2) / (|e2| * (|e2| - b2)) := by
        apply div_le_div_of_nonneg_left hnum0 hdenpos hden
#print axioms div_close

open Lean Elab Command in
elab "#audit_ns " ns:ident : command => do
  let env ← getEnv
  let pre := ns.getId
  for (n, ci) in env.constants.toList do
    if pre.isPrefixOf n && (match ci with | .thmInfo _ => true | _ => false) && !n.isInternal then
      let axs ← Lean.collectAxioms n
      logInfo m!"AUDIT {n} {axs.toList}"

namespace Demo.Props
theorem t1 : 1 + 1 = 2 := rfl
theorem t2 (a b : K) : a + b = b + a := add_comm a b
end Demo.Props
#audit_ns Demo.Props
