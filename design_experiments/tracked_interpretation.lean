import Mathlib.Tactic.Ring
import Mathlib.Tactic.Linarith
import Mathlib.Tactic.Positivity
import Mathlib.Algebra.Order.Field.Basic
import Mathlib.Algebra.Order.AbsoluteValue.Basic

class FloatLike (F : Type) where
  add : F → F → F
  mul : F → F → F
  fma : F → F → F → F

open FloatLike

structure Poly3 (F : Type) where
  c0 : F
  c1 : F
  c2 : F
  c3 : F

def Poly3.map {F G} (f : F → G) (p : Poly3 F) : Poly3 G := ⟨f p.c0, f p.c1, f p.c2, f p.c3⟩

def Poly3.evaluate {F} [FloatLike F] (self : Poly3 F) (x : F) : F :=
  let x2 := mul x x
  let t0 := fma self.c1 x self.c0
  let t1 := fma self.c3 x self.c2
  fma t1 x2 t0

variable {K : Type} [Field K] [LinearOrder K] [IsStrictOrderedRing K]

def Exact (K : Type) := K
instance : FloatLike (Exact K) where
  add := fun (a b : K) => a + b
  mul := fun (a b : K) => a * b
  fma := fun (a b c : K) => a * b + c

structure RModel (K : Type) [Field K] [LinearOrder K] [IsStrictOrderedRing K] where
  rnd : K → K
  u : K
  hu : 0 ≤ u
  h : ∀ x, |rnd x - x| ≤ u * |x|

def Rounded (M : RModel K) := K
instance (M : RModel K) : FloatLike (Rounded M) where
  add := fun (a b : K) => M.rnd (a + b)
  mul := fun (a b : K) => M.rnd (a * b)
  fma := fun (a b c : K) => M.rnd (a * b + c)

structure Tr (M : RModel K) where
  e : K
  a : K
  b : K
  inv : |a - e| ≤ b

theorem rnd_close (M : RModel K) (e a m : K) (h : |a - e| ≤ m) :
    |M.rnd a - e| ≤ m + M.u * (|e| + m) := by
  have h1 := M.h a
  have h2 : |a| ≤ |e| + m := by
    calc |a| = |e + (a - e)| := by ring_nf
      _ ≤ |e| + |a - e| := abs_add_le _ _
      _ ≤ |e| + m := by linarith
  have h3 : M.u * |a| ≤ M.u * (|e| + m) := mul_le_mul_of_nonneg_left h2 M.hu
  calc |M.rnd a - e| = |(M.rnd a - a) + (a - e)| := by ring_nf
    _ ≤ |M.rnd a - a| + |a - e| := abs_add_le _ _
    _ ≤ m + M.u * (|e| + m) := by linarith

theorem mul_close (e1 a1 b1 e2 a2 b2 : K) (h1 : |a1 - e1| ≤ b1) (h2 : |a2 - e2| ≤ b2) :
    |a1 * a2 - e1 * e2| ≤ |e1| * b2 + |e2| * b1 + b1 * b2 := by
  have : a1 * a2 - e1 * e2 = e1 * (a2 - e2) + e2 * (a1 - e1) + (a1 - e1) * (a2 - e2) := by ring
  rw [this]
  have hb1 : 0 ≤ b1 := le_trans (abs_nonneg _) h1
  calc |e1 * (a2 - e2) + e2 * (a1 - e1) + (a1 - e1) * (a2 - e2)|
      ≤ |e1 * (a2 - e2)| + |e2 * (a1 - e1)| + |(a1 - e1) * (a2 - e2)| := abs_add_three _ _ _
    _ = |e1| * |a2 - e2| + |e2| * |a1 - e1| + |a1 - e1| * |a2 - e2| := by simp only [abs_mul]
    _ ≤ |e1| * b2 + |e2| * b1 + b1 * b2 := by
        have := mul_le_mul_of_nonneg_left h2 (abs_nonneg e1)
        have := mul_le_mul_of_nonneg_left h1 (abs_nonneg e2)
        have := mul_le_mul h1 h2 (abs_nonneg _) hb1
        linarith

instance (M : RModel K) : FloatLike (Tr M) where
  add x y := ⟨x.e + y.e, M.rnd (x.a + y.a), (x.b + y.b) + M.u * (|x.e + y.e| + (x.b + y.b)), by
    apply rnd_close
    have : x.a + y.a - (x.e + y.e) = (x.a - x.e) + (y.a - y.e) := by ring
    rw [this]
    exact le_trans (abs_add_le _ _) (add_le_add x.inv y.inv)⟩
  mul x y := ⟨x.e * y.e, M.rnd (x.a * y.a),
    (|x.e| * y.b + |y.e| * x.b + x.b * y.b) + M.u * (|x.e * y.e| + (|x.e| * y.b + |y.e| * x.b + x.b * y.b)), by
    apply rnd_close
    exact mul_close _ _ _ _ _ _ x.inv y.inv⟩
  fma x y z := ⟨x.e * y.e + z.e, M.rnd (x.a * y.a + z.a),
    (|x.e| * y.b + |y.e| * x.b + x.b * y.b + z.b) + M.u * (|x.e * y.e + z.e| + (|x.e| * y.b + |y.e| * x.b + x.b * y.b + z.b)), by
    apply rnd_close
    have : x.a * y.a + z.a - (x.e * y.e + z.e) = (x.a * y.a - x.e * y.e) + (z.a - z.e) := by ring
    rw [this]
    exact le_trans (abs_add_le _ _) (add_le_add (mul_close _ _ _ _ _ _ x.inv y.inv) z.inv)⟩

def Tr.inp (M : RModel K) (x : K) : Tr M := ⟨x, x, 0, by simp⟩

-- projections commute with programs: by rfl?
example (M : RModel K) (p : Poly3 K) (x : K) :
    ((p.map (Tr.inp M)).evaluate (Tr.inp M x)).e = Poly3.evaluate (F := Exact K) p x := rfl
example (M : RModel K) (p : Poly3 K) (x : K) :
    ((p.map (Tr.inp M)).evaluate (Tr.inp M x)).a = Poly3.evaluate (F := Rounded M) p x := rfl

theorem poly3_rounded_close (M : RModel K) (p : Poly3 K) (x : K) :
    |(show K from Poly3.evaluate (F := Rounded M) p x) - (show K from Poly3.evaluate (F := Exact K) p x)|
      ≤ ((p.map (Tr.inp M)).evaluate (Tr.inp M x)).b :=
  ((p.map (Tr.inp M)).evaluate (Tr.inp M x)).inv
#print axioms poly3_rounded_close
