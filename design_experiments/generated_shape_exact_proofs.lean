import Mathlib.Tactic.Ring
import Mathlib.Tactic.FieldSimp
import Mathlib.Tactic.Linarith
import Mathlib.Tactic.NormNum
import Mathlib.Algebra.Order.Field.Basic
import Mathlib.Algebra.CharZero.Defs
import Core

@[reducible] noncomputable def exactFL (K : Type) [Field K] [LinearOrder K] : FloatLike K where
  add := fun (a b : K) => a + b
  sub := fun (a b : K) => a - b
  mul := fun (a b : K) => a * b
  div := fun (a b : K) => a / b
  neg := fun (a : K) => -a
  fma := fun (a b c : K) => a * b + c
  ofDec := fun m e => ((m : K) * (10 : K) ^ e)
  lt := fun (a b : K) => decide (a < b)
  le := fun (a b : K) => decide (a ≤ b)

attribute [local instance] exactFL

variable {K : Type} [Field K] [LinearOrder K]

theorem poly3_eval (p : Poly3 K) (x : K) :
    Evaluate.evaluate p x = p._0.a0 + p._0.a1 * x + p._0.a2 * x^2 + p._0.a3 * x^3 := by
  simp only [Evaluate.evaluate, FloatLike.fma, FloatLike.mul]
  ring

theorem ofDec_20 [CharZero K] : (FloatLike.ofDec 20 (-1) : K) = 2 := by
  simp only [FloatLike.ofDec]; norm_num
theorem ofDec_30 [CharZero K] : (FloatLike.ofDec 30 (-1) : K) = 3 := by
  simp only [FloatLike.ofDec]; norm_num
theorem ofDec_0 : (FloatLike.ofDec 0 0 : K) = 0 := by
  simp only [FloatLike.ofDec]; norm_num

theorem poly2_deriv_indef [CharZero K] (p : Poly2 K) :
    HasDerivative.derivative (HasIntegral.indefinite p) = p := by
  rcases p with ⟨⟨a, b, c⟩⟩
  simp only [HasDerivative.derivative, HasIntegral.indefinite, FloatLike.mul, FloatLike.div, ofDec_20, ofDec_30]
  congr 2 <;> field_simp

theorem poly2_integral_knot [CharZero K] (p : Poly2 K) (k : Knot K) :
    Evaluate.evaluate (HasIntegral.integral p k) k.x = k.y := by
  simp only [Evaluate.evaluate, HasIntegral.integral, Translate.translate, FloatLike.fma, FloatLike.mul,
    FloatLike.div, FloatLike.add, FloatLike.sub]
  ring

theorem seg_integral_knot {T I : Type} [HasIntegral T K I] [Translate I K] [Evaluate I K]
    (htr : ∀ (i : I) (v x : K), Evaluate.evaluate (Translate.translate i v) x = Evaluate.evaluate i x + v)
    (s : Segment K T) (k : Knot K) :
    Evaluate.evaluate (HasIntegral.integral s k) k.x = k.y := by
  simp only [Evaluate.evaluate, HasIntegral.integral, Translate.translate, FloatLike.sub, htr]
  ring
#print axioms seg_integral_knot
