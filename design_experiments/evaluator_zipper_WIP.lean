/-! Prototype: zipper model of PiecewiseEvaluator and the history theorem (core Lean only). -/

class FOrd (F : Type) where
  isNaN : F → Bool
  key : F → Int
open FOrd

variable {F : Type} [FOrd F]

def fgt (a b : F) : Bool := !isNaN a && !isNaN b && decide (key a > key b)
def fge (a b : F) : Bool := !isNaN a && !isNaN b && decide (key a ≥ key b)
def fle (a b : F) : Bool := fge b a

/-- direct evaluation, recursive-scan form: index of chosen segment among `ends ++ [lastEnd]`
    is expressed by returning the chosen element of a list of (end, payload) -/
def den {A : Type} (last : A) : List (F × A) → F → A
  | [], _ => last
  | a :: rest, x => if fgt a.1 x then a.2 else den last rest x

structure Z (F A : Type) where
  pre : List (F × A)     -- skipped, nearest first
  tl : List (F × A)
  L : F

def fwd {A} : List (F × A) → List (F × A) → F → List (F × A) × List (F × A)
  | pre, [], _ => (pre, [])
  | pre, t :: ts, x => if fgt t.1 x then (pre, t :: ts) else fwd (t :: pre) ts x

def bwd {A} : List (F × A) → List (F × A) → F → List (F × A) × List (F × A)
  | [], tl, _ => ([], tl)
  | p :: ps, tl, x => if fle p.1 x then (p :: ps, tl) else bwd ps (p :: tl) x

def choose {A} (last : A) : List (F × A) → A
  | [] => last
  | t :: _ => t.2

def step {A} (last : A) (z : Z F A) (x : F) : Z F A × A :=
  let (pre', tl') := if fge x z.L then fwd z.pre z.tl x else bwd z.pre z.tl x
  (⟨pre', tl', x⟩, choose last tl')

def run {A} (last : A) (z : Z F A) : List F → List A
  | [] => []
  | x :: xs => let (z', a) := step last z x; a :: run last z' xs

/-- well-formed zipper w.r.t. L: pre (nearest first) descending and ≤ L; tl ascending and ≥ L; no NaN -/
structure Inv {A} (z : Z F A) : Prop where
  nn_pre : ∀ p ∈ z.pre, isNaN p.1 = false
  nn_tl : ∀ t ∈ z.tl, isNaN t.1 = false
  pre_le : ∀ p ∈ z.pre, key p.1 ≤ key z.L
  tl_ge : ∀ t ∈ z.tl, key z.L ≤ key t.1
  tl_sorted : z.tl.Pairwise (fun a b => key a.1 ≤ key b.1)
  pre_sorted : z.pre.Pairwise (fun a b => key b.1 ≤ key a.1)

theorem den_skip {A} (last : A) (pre rest : List (F × A)) (x : F)
    (h : ∀ p ∈ pre, fgt p.1 x = false) : den last (pre.reverse ++ rest) x = den last rest x := by
  induction pre generalizing rest with
  | nil => simp
  | cons p ps ih =>
    have hp := h p (by simp)
    have := ih (p :: rest) (fun q hq => h q (by simp [hq]))
    simp only [List.reverse_cons, List.append_assoc, List.singleton_append]
    rw [this]; simp [den, hp]

/-- forward scan computes den, and keeps everything it skips ≤ x -/
theorem fwd_spec {A} (last : A) (pre tl : List (F × A)) (x : F) :
    choose last (fwd pre tl x).2 = den last tl x ∧
    (fwd pre tl x).1.reverse ++ (fwd pre tl x).2 = pre.reverse ++ tl ∧
    (∀ p ∈ (fwd pre tl x).1, p ∈ pre ∨ (p ∈ tl ∧ fgt p.1 x = false)) ∧
    (∀ t ∈ (fwd pre tl x).2, t ∈ tl) ∧
    (∀ t, (fwd pre tl x).2.head? = some t → fgt t.1 x = true) := by
  induction tl generalizing pre with
  | nil => simp [fwd, choose, den]
  | cons t ts ih =>
    by_cases h : fgt t.1 x
    · simp [fwd, h, choose, den]
    · have h' : fgt t.1 x = false := by simpa using h
      obtain ⟨i1, i2, i3, i4, i5⟩ := ih (t :: pre)
      simp only [fwd, h', den, Bool.false_eq_true, if_false]
      refine ⟨i1, ?_, ?_, ?_, i5⟩
      · rw [i2]; simp
      · intro p hp
        rcases i3 p hp with hq | ⟨hq, hf⟩
        · rcases List.mem_cons.mp hq with rfl | hq
          · right; exact ⟨by simp, h'⟩
          · left; exact hq
        · right; exact ⟨by simp [hq], hf⟩
      · intro u hu; simp [i4 u hu]
